"""hx: property-based testing / fuzzing machinery for hotxlfp (see /verif/DESIGN.md)."""
