import argparse
import os
import sys
import traceback


def main():
    ap = argparse.ArgumentParser(prog='python -m hx')
    ap.add_argument('property')
    ap.add_argument('--tier', default=os.environ.get('VERIF_TIER', 'quick'), choices=['quick', 'thorough'])
    ap.add_argument('--replay')
    ap.add_argument('--law', action='append')
    ap.add_argument('--jobs', type=int)
    a = ap.parse_args()
    root = os.path.dirname(os.path.dirname(os.path.abspath(__file__)))
    deps = os.path.join(root, '.deps')
    if os.path.isdir(deps) and deps not in sys.path:
        sys.path.append(deps)
    try:
        seed = int(os.environ.get('VERIF_SEED', '1') or '1')
    except ValueError:
        seed = 1
    from . import runner
    try:
        if a.replay:
            return runner.replay_file(a.property, a.replay)
        return runner.run_property(a.property, a.tier, seed, only=a.law, jobs=a.jobs)
    except SystemExit:
        raise
    except BaseException:
        traceback.print_exc()
        print('HARNESS-ERROR: see traceback', file=sys.stderr)
        return 2


if __name__ == '__main__':
    sys.exit(main())
