"""Deterministic step budget: counts Python `line` events executed inside the
snapshot of hotxlfp and inside ply, and aborts the call when the count exceeds
the budget.  The count, not the wall clock, decides "terminates / bounded time"."""
import sys

from . import snapshot


class BudgetExceeded(BaseException):
    pass


def run_with_budget(fn, budget):
    """-> (value, lines). Raises BudgetExceeded when more than `budget` lines run."""
    snap = snapshot.directory()
    count = [0]

    def local(frame, event, arg):
        if event == 'line':
            count[0] += 1
            if count[0] > budget:
                raise BudgetExceeded(count[0])
        return local

    def glob(frame, event, arg):
        fn_ = frame.f_code.co_filename
        if fn_.startswith(snap) or '/ply/' in fn_:
            return local
        return None

    old = sys.gettrace()
    sys.settrace(glob)
    try:
        v = fn()
    finally:
        sys.settrace(old)
    return v, count[0]


def text_budget(text, operand_size=0):
    return 50000 + 2000 * len(text) + 200 * operand_size
