"""C01 - parse() is total: it always returns a well-formed result/error record, in bounded time."""
import datetime
import itertools
import os
import re
import shutil
import subprocess
import sys
import tempfile

from hypothesis import strategies as st

from .. import gen_formula as gf
from .. import snapshot
from ..budget import run_with_budget, BudgetExceeded, text_budget
from ..env import errors, hot
from ..law import Law, Violation, Skip
from ..values import dec, enc, CODES9

RULE = 'C01: arbitrary Unicode strings, token soups, truncated/unbalanced formulas; every supported function at arity 0..4 over a 24-value pool; host callbacks that return or raise anything; coverage-guided byte fuzzing'
ASSUMPTIONS = ['"bounded time" = at most 50000 + 2000*len(text) + 200*size(operands) Python line events inside hotxlfp/ply; cost hidden inside C primitives is bounded separately: by the repetitive law for the regex scanner (2 s of thread CPU time for inputs of at most ~110 characters, a factor of about 2000 above normal) and by large_host_values for the walk over host lists (CPU time of the evaluating thread at two sizes); literal exponents and factorial arguments are kept small',
               'host faults are Exception subclasses (KeyboardInterrupt/SystemExit/GeneratorExit propagate by Python convention)',
               'fuzzing campaigns are pinned by -seed/-runs only approximately; the saved crashing input is the reproducible unit']

ROOT = os.path.dirname(os.path.dirname(os.path.dirname(os.path.abspath(__file__))))


def xl():
    return errors()


def well_formed(r):
    if not isinstance(r, dict) or set(r.keys()) != set(['result', 'error']):
        return 'not a record with exactly result and error: %r' % (r,)
    if r['error'] is not None and (not isinstance(r['error'], str) or r['error'] not in CODES9):
        return 'error entry %r is not one of the nine canonical codes' % (r['error'],)
    if r['error'] is not None and r['result'] is not None:
        return 'error %r is set but the result is %r' % (r['error'], r['result'])
    if isinstance(r['result'], xl().XLError):
        return 'the result is itself an error object %r' % (r['result'],)
    return None


def guarded_parse(P, text, operand_size=0, what=None):
    budget = text_budget(text, operand_size)
    try:
        r, n = run_with_budget(lambda: P.parse(text), budget)
    except BudgetExceeded:
        raise Violation('%s: parse(%r) did not return within %d line events' % (what or 'termination', text, budget), 'no result within the step budget', 'returns')
    except Exception as e:
        raise Violation('%s: parse(%r) raised %s: %s' % (what or 'totality', text, type(e).__name__, _safe(e)), type(e).__name__, 'returns a record')
    m = well_formed(r)
    if m:
        raise Violation('%s: parse(%r) -> %s' % (what or 'record', text, m), _safe_repr(r), 'well-formed record')
    return r


def _safe(e):
    try:
        return str(e)
    except Exception:
        return '<unprintable>'


def _safe_repr(r):
    try:
        return repr(r)[:300]
    except Exception:
        return '<unprintable>'


def bigcost(text):
    return bool(re.search(r'\d{4,}', text)) and ('^' in text or 'FACT' in text.upper() or 'POWER' in text.upper())


# ---------------------------------------------------------------- strings

def fn_names():
    snapshot.load()
    from hotxlfp import formulas
    return formulas.supported()


LEXEMES = ['A1', '$A$1', '$B2', 'C$3', 'zz99', 'A1:B2', 'ZZZZZZZZ1:A1', 'B2:ABCDEFGHIJK7', 'QWERTYUIOP12345678901234567890', ':', ',', ';', '\\', '(', ')', '{', '}', '+', '-', '*', '/', '^', '%', '&', '=', '<>', '<', '>', '<=', '>=', '!', "'", '"', '#',
           '#N/A', '#DIV/0!', '#REF!', '#NAME?', '#GETTING_DATA', '#FOO!', '1', '0', '12', '007', '.', '.5', '1.5', ' ', '\t', '\n', 'TRUE', 'FALSE', 'NULL', 'v_a', 'v_s', 'v_l', 'nosuch', 'x_1', '_',
           '"txt"', "'t'", '""', '"a,b"', 'HF(', 'NOSUCH(', 'SUM(', 'IF(', 'ERROR.TYPE(', 'INDEX(', '~', '@', 'é', '\x00', '`', '[', ']', '|', '$', '1e5', '٣', '∞']


def soup():
    names = st.sampled_from(['SUM', 'IF', 'INDEX', 'MATCH', 'TEXT', 'BASE', 'ROMAN', 'SUBSTITUTE', 'DATE', 'EDATE', 'CONCATENATE', 'SWITCH', 'IFS', 'CHOOSE', 'LARGE', 'PV', 'AND', 'COUNTIF', 'SUMIFS', 'TEXTJOIN']).map(lambda n: n + '(')
    return st.lists(st.one_of(st.sampled_from(LEXEMES), st.sampled_from(LEXEMES), names), min_size=1, max_size=30).map(''.join)


valid_leaf = st.one_of(st.sampled_from(['1', '2', '10']).map(lambda s: ['num', s]), st.just(['dec', '0.5']), st.sampled_from(['v_a', 'v_s', 'v_l', 'TRUE']).map(lambda n: ['var', n]),
                       st.sampled_from(['B2', '$C$3']).map(lambda n: ['cell', n]), st.just(['range', 'A1', 'B2']), st.just(['str', 'a b', '"']), st.just(['errlit', '#N/A']))


def valid_trees():
    def extend(ch):
        return st.one_of(
            st.tuples(st.just('bin'), st.sampled_from(gf.ARITH + gf.CMP + ['&']), ch, ch).map(list),
            st.tuples(st.just('neg'), ch).map(list),
            st.tuples(st.just('call'), st.sampled_from(['SUM', 'IF', 'HF', 'INDEX', 'CONCATENATE', 'IFERROR', 'MAX', 'TEXTJOIN', 'LEFT', 'ROUND']), st.lists(st.one_of(ch, ch, st.none()), max_size=4)).map(list),
            st.tuples(st.just('arr'), st.lists(ch, min_size=1, max_size=3)).map(list),
            st.tuples(st.just('paren'), ch).map(list))
    return st.recursive(valid_leaf, extend, max_leaves=8)


@st.composite
def mutated(draw):
    t = draw(valid_trees())
    toks = gf.tokens(t, draw(st.sampled_from(['min', 'full'])), draw(st.sampled_from([',', ';', '\\'])))
    kind = draw(st.integers(0, 5))
    if kind == 0:
        text = ''.join(toks)
        return text[:draw(st.integers(0, len(text)))]
    if kind == 1 and toks:
        i = draw(st.integers(0, len(toks) - 1))
        toks = toks[:i] + toks[i + 1:]
    elif kind == 2 and toks:
        i = draw(st.integers(0, len(toks) - 1))
        toks = toks[:i] + [toks[i]] + toks[i:]
    elif kind == 3 and len(toks) >= 2:
        i = draw(st.integers(0, len(toks) - 2))
        toks = toks[:i] + [toks[i + 1], toks[i]] + toks[i + 2:]
    elif kind == 4:
        i = draw(st.integers(0, len(toks)))
        toks = toks[:i] + [draw(st.sampled_from(['(', ')', '"', "'", '{', '}', ',', '#', '!']))] + toks[i:]
    return ''.join(toks)


bigint_forms = st.one_of(
    st.tuples(st.integers(2, 99), st.integers(300, 999)).map(lambda t: '%d^%d' % t),
    st.integers(171, 400).map(lambda n: 'FACT(%d)' % n), st.integers(300, 400).map(lambda n: 'FACTDOUBLE(%d)' % n), st.integers(309, 700).map(lambda n: 'POWER(10,%d)' % n),
    st.tuples(st.integers(2, 99), st.integers(300, 999), st.sampled_from(['+1', '*2', '&"x"', '=1', '/3', '-v_a'])).map(lambda t: '%d^%d%s' % t),
    st.integers(1, 9).map(lambda d: 'PRODUCT(%s)' % ','.join(['99999999999999999999'] * (16 + d))), st.just('10^308*10'), st.just('-(7^400)'), st.just('{2^1100}'), st.just('SUM(3^700,1)'))

DIGITISH = ['\u00b2', '\u00b3', '\u00b9', '\u2460', '\u2469', '\u2167', '\uff11\uff12', '\u0663', '\u0966', '\U0001d7d8', '\u2070', '\u2082', '\u00bd', '1', '0', '12', '\u0969\u0968', '\u3007', '\u4e09']
digitish = st.one_of(st.lists(st.sampled_from(DIGITISH), min_size=1, max_size=4).map(''.join),
                     st.tuples(st.sampled_from('0123456789'), st.integers(4290, 6000)).map(lambda t: t[0] * t[1]),
                     st.integers(4290, 4310).map(lambda n: '1' + '0' * n), st.integers(300, 330).map(lambda n: '9' * n + '.5'))

string_case = st.one_of(
    digitish.map(lambda s: ['digitish', s]),
    bigint_forms.map(lambda s: ['bigint', s]),
    st.text(max_size=200).map(lambda s: ['unicode', s]),
    st.text(st.characters(min_codepoint=0, max_codepoint=0x10FFFF, blacklist_categories=()), max_size=40).map(lambda s: ['unicode', s]),
    soup().map(lambda s: ['soup', s]), soup().map(lambda s: ['soup', s]),
    mutated().map(lambda s: ['mutated', s]), mutated().map(lambda s: ['mutated', s]),
    valid_trees().map(lambda t: ['valid', gf.render(t)]),
)


def make_parser():
    P = hot().Parser()
    P.set_variable('v_a', 4)
    P.set_variable('v_s', 'txt')
    P.set_variable('v_l', [1, 2, 3])
    P.set_function('HF', lambda *a: len(a))
    P.on('callCellValue', lambda cell, setter: setter(cell.row.index + cell.col.index))
    P.on('callRangeValue', lambda s, e, setter: setter([s.row.index, e.row.index]))
    return P


def check_string(case):
    import io
    import contextlib
    kind, text = case
    if bigcost(text) and kind not in ('bigint', 'digitish'):
        raise Skip('big-integer-cost')
    P = make_parser()
    if (len(text) + sum(map(ord, text[:3]))) % 3 == 0:
        P.debug = True          # a third of the inputs with debug output on (the traceback goes to a buffer; stdout stays what it is)
    with contextlib.redirect_stderr(io.StringIO()):
        r = guarded_parse(P, text, what=kind + (' (debug on)' if P.debug else ''))
    return r


# ---------------------------------------------------------------- a parser built in one thread, used from another; re-entrant use that must not block

THREAD_FORMULAS = ['', '1+1', 'SUM(1,2,3)*4+A1', 'nosuch', 'NOSUCH(1)', '1+', '((', '#N/A', '1/0', 'v_s+1', 'BOOM()', 'IFERROR(BOOM(),1)', 'REENTER("1+1")+1', 'REENTER("nosuch")', 'REENTER("REENTER(\'2*3\')")&"x"', 'Z9', 'HF(v_l,B2)',
                   'A1:B2', '"a"&v_s', 'TRUE', 'SQRT(-1)', '~']
STALL_S = 8.0


def in_thread(fn):
    """-> ('ok', value) | ('raised', exception) | ('blocked', lines executed) ; blocked = the thread executed no line of the library for STALL_S seconds and has not returned"""
    import threading
    import time
    box = {}
    ticks = [0]
    snap = snapshot.directory()

    def local(frame, event, arg):
        ticks[0] += 1
        return local

    def glob(frame, event, arg):
        fname = frame.f_code.co_filename
        if fname.startswith(snap) or '/ply/' in fname:
            ticks[0] += 1
            return local
        return None

    def body():
        sys.settrace(glob)
        try:
            box['v'] = ('ok', fn())
        except Exception as e:
            box['v'] = ('raised', e)
        finally:
            sys.settrace(None)
    t = threading.Thread(target=body, daemon=True)
    t.start()
    seen, deadline = -1, time.monotonic() + STALL_S
    while t.is_alive():
        t.join(0.05)
        if ticks[0] != seen:
            seen, deadline = ticks[0], time.monotonic() + STALL_S
        elif time.monotonic() > deadline:
            return ('blocked', ticks[0])
    return box['v']


def check_thread_use(case):
    text = THREAD_FORMULAS[case['f']]
    P = make_parser()                    # built here, in the thread that runs the check
    P.debug = case['debug']

    def boom(*a):
        raise ValueError('host failure')
    P.set_function('BOOM', boom)
    P.set_function('REENTER', lambda t: P.parse(t)['result'])
    P.on('callCellValue', lambda cell, setter: (_ for _ in ()).throw(KeyError('listener failure')) if cell.label == 'Z9' else None)
    import io
    import contextlib
    with contextlib.redirect_stderr(io.StringIO()):
        out = in_thread(lambda: P.parse(text))
    where = 'parse(%r) called in another thread than the one that built the parser%s' % (text, ' (debug on)' if case['debug'] else '')
    if out[0] == 'blocked':
        raise Violation('%s did not return: after %d line events the thread executed nothing for %d s (blocked, not busy)' % (where, out[1], STALL_S), 'blocked', 'returns a record')
    if out[0] == 'raised':
        raise Violation('%s raised %s: %s' % (where, type(out[1]).__name__, _safe(out[1])), type(out[1]).__name__, 'returns a record')
    m = well_formed(out[1])
    if m:
        raise Violation('%s -> %s' % (where, m), _safe_repr(out[1]), 'well-formed record')


def string_nontrivial(case):
    return len(case[1]) >= 3


def string_classes(case):
    return ('gen:' + case[0],)


# ---------------------------------------------------------------- repetitive inputs (cost hidden inside C primitives)

FRAGMENTS = ['\\x', '\\\\', '\\"', "\\'", '""', "''", 'a.', '(', ')', '1.', '.1', '$A', 'A$', '#', '"\\', '.5', '<>', 'A1:', ' ', '\t', '%', '^2', '_a', '.a', 'a_', '1e', '-', '{', ',', ';', '!', 'é', 'A1', 'x(', 'N/A', '#N/A', '&"', '=', '+', '<', '= ']
patho_case = st.fixed_dictionaries({'prefix': st.sampled_from(['', '"', "'", 'SUM(', 'CONCATENATE("', "LEN('", '=', '{', '1+']), 'frag': st.sampled_from(FRAGMENTS), 'frag2': st.sampled_from([''] + FRAGMENTS),
                                    'n': st.one_of(st.integers(1, 25), st.integers(1, 25), st.integers(1, 25), st.integers(1, 25), st.sampled_from([400, 1200, 2500])), 'suffix': st.sampled_from(['', '"', "'", ')', '")', '}', '+1'])})
CPU_LIMIT_S = 2.0


def patho_text(c):
    return c['prefix'] + (c['frag'] + c['frag2']) * c['n'] + c['suffix']


def check_patho(case):
    import time
    text = patho_text(case)
    if bigcost(text):
        raise Skip('big-integer-cost')
    P = make_parser()
    # a long run is evaluated under the interpreter's default recursion limit (Hypothesis raises it inside test bodies): whatever in parse() nests once per
    # repetition has to end in a record there too
    lim = sys.getrecursionlimit()
    t0 = time.thread_time()
    try:
        if case['n'] > 25:
            sys.setrecursionlimit(1000)
        r = P.parse(text)
    except Exception as e:
        sys.setrecursionlimit(lim)
        shown = text if len(text) < 200 else '%s... (%r repeated %d times)' % (text[:60], case['frag'] + case['frag2'], case['n'])
        raise Violation('parse(%r) raised %s: %s' % (shown, type(e).__name__, _safe(e)), type(e).__name__, 'returns a record')
    finally:
        sys.setrecursionlimit(lim)
    dt = time.thread_time() - t0
    m = well_formed(r)
    if m:
        raise Violation('parse(%r) -> %s' % (text, m), _safe_repr(r), 'well-formed record')
    if dt > CPU_LIMIT_S:
        raise Violation('parse of a %d-character input (%r repeated %d times after %r) used %.1f s of CPU time; ordinary inputs of this length take about a millisecond' % (len(text), case['frag'] + case['frag2'], case['n'], case['prefix'], dt),
                        round(dt, 2), 'about 0.001 s')


# ---------------------------------------------------------------- host values the size of a sheet

BIG_FORMULAS = ['SUM(v_big)', 'COUNT(v_big)', 'AND(v_big)', 'OR(v_big)', 'MAX(v_big)', 'MIN(v_big)', 'COUNTA(v_big)', 'AVERAGE(v_big)', 'SUMIF(v_big,">0")', 'COUNTIF(v_big,">1")', 'MATCH(2,v_big,0)', 'INDEX(v_big,5,1)',
                'MEDIAN(v_big)', 'LARGE(v_big,3)', 'COUNTBLANK(v_big)', 'XOR(v_big)', 'SUM(A1:B9)', 'SUM(v_big,v_big)', 'VAR(v_big)', 'STDEV(v_big)', 'MODE(v_big)', 'AVEDEV(v_big)', 'SUMIFS(v_flat,v_flat,">0")',
                'AVERAGEIF(v_flat,">0")', 'MAXIFS(v_flat,v_flat,">0")', 'GEOMEAN(v_big)', 'HARMEAN(v_big)', 'SUM(v_big*2)', 'SUM(v_flat+v_flat)', 'TEXTJOIN("",TRUE,v_big)', 'CONCATENATE(v_flat)', 'ISERROR(v_big)', 'N(v_big)',
                'CHOOSE(1,v_big,2)', 'IF(TRUE,v_big,0)', 'IFERROR(v_big,0)', 'LEN(v_flat)', 'v_flat&"x"', 'v_flat=v_flat', 'SUM(v_deep)', 'COUNT(v_rows)', 'MAX(v_rows,v_big)', 'AND(v_empty)', 'SUM(v_empty,1)']
BIG_CPU_S = 4.0


def enum_big(tier, shard, nshards):
    sizes = [(20000, 80000)] if tier == 'quick' else [(20000, 80000), (60000, 240000)]
    i = 0
    for f in BIG_FORMULAS:
        for small, large in sizes:
            i += 1
            if i % nshards == shard:
                yield [f, small, large]


def check_big(case):
    """A range the size of a sheet column (tens of thousands of rows) is an ordinary host value.  The cost of an evaluation over it may grow with its size,
    not with the square of it: four times the rows must not cost more than eight times the CPU time once the time is above the noise, nor more than
    BIG_CPU_S seconds of this thread's CPU time (about ten times what the slowest of these formulas takes)."""
    import time
    f, small, large = case

    def run(n):
        P = hot().Parser()
        big = [[k % 7 + 1, 2] for k in range(n)]
        P.set_variable('v_big', big)
        P.set_variable('v_flat', [k % 7 + 1 for k in range(n)])
        P.set_variable('v_rows', [[k % 7 + 1] for k in range(n)])
        P.set_variable('v_empty', [[] for k in range(n)] + [[1]])
        deep = [1]
        for k in range(min(n, 20000)):
            deep = [deep, k % 5]
        P.set_variable('v_deep', deep)
        P.on('callRangeValue', lambda a, b, setter: setter(big))
        t0 = time.thread_time()
        try:
            r = P.parse(f)
        except Exception as e:
            raise Violation('parse(%r) over a host value of %d rows raised %s: %s' % (f, n, type(e).__name__, _safe(e)), type(e).__name__, 'returns a record')
        dt = time.thread_time() - t0
        m = well_formed(r)
        if m:
            raise Violation('parse(%r) over a host value of %d rows -> %s' % (f, n, m), _safe_repr(r)[:200], 'well-formed record')
        return dt
    t1 = run(small)
    if t1 > BIG_CPU_S:
        raise Violation('%s over a host value of %d rows used %.1f s of CPU time (such an evaluation takes a few hundredths of a second)' % (f, small, t1), round(t1, 2), 'below %.0f s' % BIG_CPU_S)
    t2 = run(large)
    if t2 > BIG_CPU_S * (large / 80000.0) and t2 > 8 * max(t1, 0.05):
        raise Violation('%s over a host value of %d rows used %.2f s of CPU time, over %d rows %.1f s: four times the rows, %.0f times the time' % (f, small, t1, large, t2, t2 / max(t1, 1e-9)), round(t2, 2), 'about %.2f s' % (4 * t1))


# ---------------------------------------------------------------- records are the caller's own

TAMPER_FORMULAS = ['', '1', '1+1', '1+', 'nosuch', 'NOSUCH(1)', '#N/A', 'B2', 'A1:B2', 'HF(1)', '"txt"', 'TRUE', 'NULL', '{1,2}', '1/0', ' ', '()']


def check_tamper(case):
    fs = case['f']
    P, Q = make_parser(), make_parser()
    first = {}
    for f in fs:
        r = guarded_parse(P, f, what='first evaluation')
        first[f] = (r['result'], r['error'])
        # the host does what it likes with the record it was given
        r['result'] = 'tampered'
        r['error'] = 'tampered'
        r['cell'] = 'A2'
        if isinstance(first[f][0], list):
            pass
    for f in fs:
        for who, X in (('the same parser', P), ('another parser', Q)):
            r = guarded_parse(X, f, what='evaluation after the host modified an earlier record')
            if (r['result'], r['error']) != first[f] and not (isinstance(r['result'], float) and r['result'] != r['result']):
                raise Violation('parse(%r) on %s after the host modified the record of an earlier evaluation -> %r, at first it was %r' % (f, who, r, first[f]), _safe_repr(r), _safe_repr(first[f]))


# ---------------------------------------------------------------- termination on boundary arguments

TB = [-2 ** 40, -37, -2, -1, -0.5, 0, 0.5, 0.999, 1, 1.01, 1.5, 1.9, 2, 2.5, 36, 36.5, 37, 3999, 4000, 2 ** 39, 10 ** 15, float('inf'), float('-inf'), float('nan'), '', 'a', 'aaa', '12', '1.5', None, True, False, '~', 'a~a*', [], ['a', 'aaa'], '0.00E+00', '#,##0.00',
      'XIV\n', '\n', '12\n']          # texts ending in a line feed: a pattern anchored with $ lets them through, the loop behind it meets a character it never expected
TB_SMALL = [-1, 0, 0.5, 1, 1.5, 2, float('inf'), float('nan'), '', 'a', 'aaa', None, '~', 'a~a*', [], ['a', 'aaa']]       # the values that decide loop bounds: all combinations of these at arity 3 and 4
TFUNCS = [('BASE', 2), ('BASE', 3), ('ROMAN', 1), ('ROMAN', 2), ('ARABIC', 1), ('SUBSTITUTE', 3), ('SUBSTITUTE', 4), ('TEXT', 2), ('DEC2HEX', 1), ('DEC2HEX', 2), ('HEX2DEC', 1), ('DECIMAL', 2), ('CHAR', 1),
          ('ROUND', 2), ('ROUNDUP', 2), ('ROUNDDOWN', 2), ('CEILING', 2), ('FLOOR', 2), ('MOD', 2), ('QUOTIENT', 2), ('EDATE', 2), ('DATE', 3), ('TIME', 3), ('LEFT', 2), ('MID', 3), ('INDEX', 3), ('MATCH', 3), ('LARGE', 2),
          ('CHOOSE', 2), ('RANDBETWEEN', 2), ('PV', 3), ('WEEKDAY', 2), ('DATEDIF', 3), ('TEXTJOIN', 3), ('LOG', 2), ('POWER', 2), ('COMPLEX', 2), ('COUNTIF', 2), ('SUMIF', 2), ('SUMIF', 3), ('AVERAGEIF', 2), ('REPLACE', 4), ('FIND', 3), ('SEARCH', 3), ('REPT', 2)]


def enum_term(tier, shard, nshards):
    i = 0
    for name, ar in TFUNCS:
        rng = range(len(TB))
        if ar <= 2:
            tuples = itertools.product(rng, repeat=ar)
        else:
            # arity 3/4: every pair of boundary values in the first two slots, later slots cycling through the pool
            tuples = (t + tuple((t[0] * 5 + t[1] * 3 + k * 7) % len(TB) for k in range(ar - 2)) for t in itertools.product(rng, repeat=2))
            # ... and every combination of the loop-deciding values in all slots (of the whole pool in the thorough tier, at arity 3)
            small = [TB.index(v) if v == v else 23 for v in TB_SMALL]          # (23 = nan, which equals nothing)
            tuples = itertools.chain(tuples, itertools.product(small, repeat=ar), itertools.product(rng, repeat=ar) if tier == 'thorough' and ar == 3 else ())
        for tup in tuples:
            i += 1
            if i % nshards == shard:
                yield [name] + list(tup)


def check_term(case):
    name, idx = case[0], case[1:]
    vals = [TB[i] for i in idx]
    def huge(v):
        return isinstance(v, (int, float)) and not isinstance(v, bool) and v == v and abs(v) != float('inf') and abs(v) >= 3999
    # size-like arguments (places, counts, exponents, digits) of astronomic magnitude cost memory/time inside C primitives, which no
    # line count can observe (DEC2HEX(1, 2^39) asks for a 550 GB string): bounded by construction, see ASSUMPTIONS
    size_args = {'BASE': [2], 'DEC2HEX': [1], 'CHAR': [0], 'LEFT': [1], 'MID': [1, 2], 'ROUND': [1], 'ROUNDUP': [1], 'ROUNDDOWN': [1], 'POWER': [1], 'TEXT': [0, 1], 'TEXTJOIN': [0, 1, 2],
                 'SUBSTITUTE': [3], 'RANDBETWEEN': [], 'PV': [1], 'DATE': [], 'TIME': [], 'REPT': [1]}
    for k in size_args.get(name, []):
        if k < len(vals) and huge(vals[k]):
            raise Skip('big-integer-cost')
    P = hot().Parser()
    names = []
    for k, v in enumerate(vals):
        n = 'v_t%s' % 'abcd'[k]
        P.set_variable(n, v)
        names.append(n)
    text = '%s(%s)' % (name, ','.join(names))
    guarded_parse(P, text, 64, what='%s%r' % (name, tuple(vals)))


# ---------------------------------------------------------------- arity sweep

def pool():
    err = xl()
    return [None, True, False, 0, 1, -1, 2, 37, 255, 2.5, -0.5, 43000, float('inf'), float('nan'), '', 'qxz', '12', '1.5', '2019-11-20',
            datetime.datetime(2019, 11, 20, 6, 0, 0), [1, 2, 3], [[1, 2], [3, 4]], [], err.NOT_AVAILABLE, 'q~z*', ['q~', 'qxz', '~'], '0.0E+0']


NP = 27


def enum_arity(tier, shard, nshards):
    names = fn_names()
    i = 0
    for name in names:
        for ar in (0, 1, 2):
            for tup in itertools.product(range(NP), repeat=ar):
                i += 1
                if i % nshards == shard:
                    yield [name] + list(tup)
    # arity 3 and 4: every function gets an equal share of a deterministic sample (all of arity 3 in thorough)
    for name in names:
        if tier == 'thorough':
            for tup in itertools.product(range(NP), repeat=3):
                i += 1
                if i % nshards == shard:
                    yield [name] + list(tup)
            step4 = 211
        else:
            for k in range(60):
                i += 1
                if i % nshards == shard:
                    h = (k * 7919 + len(name) * 104729 + sum(map(ord, name))) % (NP ** 3)
                    yield [name, h % NP, h // NP % NP, h // NP // NP]
            step4 = 7001
        for h in range((sum(map(ord, name)) * 31) % step4, NP ** 4, step4):
            i += 1
            if i % nshards == shard:
                yield [name, h % NP, h // NP % NP, h // NP // NP % NP, h // NP ** 3]


_POOL = {}


def check_arity(case):
    name, idx = case[0], case[1:]
    if 'pool' not in _POOL:
        _POOL['pool'] = pool()
    p = _POOL['pool']
    vals = [p[i] for i in idx]
    if name in ('FACT', 'FACTDOUBLE', 'POWER', 'ROUND', 'ROUNDUP', 'ROUNDDOWN', 'BASE', 'CHAR', 'RANDBETWEEN') and 43000 in vals[:3] and name != 'CHAR':
        if name in ('FACT', 'FACTDOUBLE') or (name == 'POWER' and vals[1:2] == [43000] and vals[0] in (37, 255, 43000, 2, -1, 2.5)):
            raise Skip('big-integer-cost')
    P = hot().Parser()
    names = []
    for k, v in enumerate(vals):
        n = 'v_p%s' % 'abcd'[k]
        P.set_variable(n, v)
        names.append(n)
    text = '%s(%s)' % (name, ';'.join(names))
    size = sum((len(v) if isinstance(v, (str, list)) else 8) for v in vals)
    guarded_parse(P, text, size, what='%s%r' % (name, tuple(_short(v) for v in vals)))


def _short(v):
    return v if not isinstance(v, datetime.datetime) else 'datetime'


def arity_key(case):
    return case[0]


# ---------------------------------------------------------------- host faults

EXC = ['ValueError', 'TypeError', 'KeyError', 'ZeroDivisionError', 'StopIteration', 'AssertionError', 'RecursionError', 'MemoryError', 'SyntaxError', 'UnicodeError', 'IndexError', 'OverflowError', 'AttributeError', 'RuntimeError', 'Exception', 'LookupError', 'NotImplementedError', 'OSError']
val_spec = st.one_of(st.none(), st.booleans(), st.integers(-5, 5), st.integers(10 ** 308, 10 ** 330), st.integers(-10 ** 320, -10 ** 309), st.floats(allow_nan=True, allow_infinity=True).map(lambda f: f if f == f and abs(f) != float('inf') else {'$': 'f', 'v': repr(f)}),
                     st.text(max_size=5), st.lists(st.integers(0, 3), max_size=3), st.just({'$': 'obj', 'v': 1}), st.just({'$': 'tup', 'v': [1, 2]}), st.just({'$': 'dict', 'v': [['k', 1]]}),
                     st.sampled_from(CODES9).map(lambda c: {'$': 'err', 'v': c}))
messages = st.one_of(st.sampled_from(CODES9), st.sampled_from(['#WEIRD', '', 'boom', '#N/A ', '#n/a', '#DIV/0', 'None', '#VALUE!x']), st.text(max_size=6))
behaviour = st.one_of(
    st.tuples(st.just('ret'), val_spec), st.tuples(st.just('ret'), val_spec),
    st.tuples(st.just('ret_fresh_err'), messages), st.tuples(st.just('ret_sub_err'), messages), st.tuples(st.just('ret_badstr_err')),
    st.tuples(st.just('raise'), st.sampled_from(EXC), messages), st.tuples(st.just('raise'), st.sampled_from(EXC), messages),
    st.tuples(st.just('raise_err'), st.sampled_from(CODES9)), st.tuples(st.just('raise_fresh_err'), messages), st.tuples(st.just('raise_badstr')),
    st.tuples(st.just('raise_noargs'), st.sampled_from(EXC)),
    st.tuples(st.just('raise_chained'), st.sampled_from(['#VALUE!', '#N/A', '#NUM!']), st.sampled_from(['#VALUE!', '#N/A', 'KeyError'])),
    st.tuples(st.just('resubscribe'), st.sampled_from(['callCellValue', 'callVariable', 'callFunction', 'callRangeValue'])),
    st.tuples(st.just('reenter'), st.sampled_from(['1+1', 'HF(1)', '1/0', '((', 'NOSUCH(1)', 'SUM(B2,v_x)', '#REF!', '"a"&v_x'])),
).map(list)
setter_vals = st.lists(val_spec, max_size=3)
listener_b = st.fixed_dictionaries({'set': setter_vals, 'then': st.one_of(st.none(), st.none(), behaviour)})

FORMULAS = ['v_call', 'v_call+HF(1)', 'IF(TRUE,v_fn,v_call)', 'HF(v_call)&v_x', 'WEEKDAY("no date")+HF()', 'HF(v_x,B2,C3:D4)+SUM(1,2)', 'HF()', 'v_x', 'B2', 'C3:D4', 'IFERROR(HF(1),2)', 'SUM(HF(1),B2)', 'IF(v_x,HF(2),B2)', '{HF(1),v_x}', 'HF(HF(v_x))&"a"', '-HF(1)', 'HF(1)=B2', 'ISERROR(HF(B2))',
            'CONCATENATE(v_x,B2,HF(3))', 'MAX(C3:D4)', 'TEXTJOIN(",",TRUE,C3:D4,v_x)', 'INDEX(C3:D4,HF(1))', 'ERROR.TYPE(HF(1))', 'HF(1)+', 'SUM(']

fault_case = st.fixed_dictionaries({
    'formula': st.sampled_from(FORMULAS), 'fn': behaviour, 'var': val_spec, 'debug': st.booleans(),
    'listeners': st.fixed_dictionaries({'callFunction': st.lists(listener_b, max_size=2), 'callVariable': st.lists(listener_b, max_size=2),
                                        'callCellValue': st.lists(listener_b, max_size=2), 'callRangeValue': st.lists(listener_b, max_size=2)}),
})


_RESUB = []


class BadStr(Exception):
    def __str__(self):
        raise RuntimeError('str() of this exception fails')

    __repr__ = __str__


def act(b, P, depth=[0]):
    kind = b[0]
    err = xl()
    if kind == 'ret':
        return dec(b[1])
    if kind == 'ret_fresh_err':
        return err.XLError(b[1])
    if kind == 'ret_sub_err':
        return type('HostError', (err.XLError,), {})(b[1])
    if kind == 'ret_badstr_err':
        return type('BadStrError', (err.XLError,), {'__str__': lambda self: (_ for _ in ()).throw(RuntimeError('bad str'))})('#N/A')
    if kind == 'raise':
        raise getattr(__import__('builtins'), b[1])(b[2])
    if kind == 'raise_noargs':
        raise getattr(__import__('builtins'), b[1])()
    if kind == 'raise_err':
        raise err.from_message(b[1])
    if kind == 'raise_fresh_err':
        raise err.XLError(b[1])
    if kind == 'raise_badstr':
        raise BadStr()
    if kind == 'raise_chained':
        # "except ...: raise <shared error> from exc": explicit chaining; with the same shared error on both sides the error becomes its own cause
        try:
            raise (KeyError('missing') if b[2] == 'KeyError' else err.from_message(b[2]))
        except Exception as exc:
            raise err.from_message(b[1]) from exc
    if kind == 'resubscribe':
        # a listener that subscribes another listener - which does the same - to the event being delivered (new subscriptions count from the next emit)
        # Each listener subscribes one successor, the first time it is called.  Where subscriptions count from the next emit this adds one listener per
        # event (linear); where an emit walks the list it is appending to, the chain runs on within that one emit until the cap, far beyond the step budget.
        def make():
            spent = [False]

            def again(*a):
                if not spent[0] and len(_RESUB) < 100000:
                    spent[0] = True
                    _RESUB.append(1)
                    P.on(b[1], make())
            return again
        make()()
        return None
    if kind == 'reenter':
        if depth[0] >= 2:
            return 0
        depth[0] += 1
        try:
            r = P.parse(b[1])
        finally:
            depth[0] -= 1
        m = well_formed(r)
        if m:
            raise Violation('re-entrant parse(%r) -> %s' % (b[1], m), _safe_repr(r), None)
        return r['result']
    raise ValueError(kind)


def check_fault(case):
    import io
    import contextlib
    del _RESUB[:]
    P = hot().Parser(debug=case['debug'])
    P.set_variable('v_x', dec(case['var']))
    P.set_function('HF', lambda *a: act(case['fn'], P))
    for kind, ls in case['listeners'].items():
        for lb in ls:
            def listener(*args, lb=lb):
                setter = args[-1]
                for v in lb['set']:
                    setter(dec(v))
                if lb['then'] is not None:
                    v = act(lb['then'], P)
                    setter(v)
            P.on(kind, listener)
    class SelfReturning(object):
        # a host object that is callable and answers with itself (a mock): as a variable's value it is a value like any other
        def __call__(self, *a, **k):
            return self
    P.set_variable('v_call', SelfReturning())
    P.set_variable('v_fn', lambda *a: (lambda *b: 1))
    buf = io.StringIO()
    import warnings
    with contextlib.redirect_stderr(buf), warnings.catch_warnings():
        if len(case['formula']) % 3 == 0:
            warnings.simplefilter('error')        # a host process that turns warnings into errors (python -W error, pytest's filterwarnings = error)
        guarded_parse(P, case['formula'], 64, what='host behaviour %r' % (case['fn'],))


def fault_key(case):
    kinds = set([case['fn'][0]])
    for ls in case['listeners'].values():
        for lb in ls:
            if lb['then']:
                kinds.add(lb['then'][0])
    if 'raise_badstr' in kinds or 'ret_badstr_err' in kinds:
        return 'unprintable-exception'
    if kinds & set(['ret_fresh_err', 'ret_sub_err']):
        return 'non-canonical-error-object-returned'
    return ''


def fault_classes(case):
    out = set(['fn:' + case['fn'][0]])
    for k, ls in case['listeners'].items():
        for lb in ls:
            if lb['then']:
                out.add('listener:' + lb['then'][0])
            if lb['set']:
                out.add('setter-used')
    return sorted(out)


# ---------------------------------------------------------------- coverage-guided fuzzing (atheris / libFuzzer)

_FUZZ = {}


def enum_fuzz(tier, shard, nshards):
    runs = 12000 if tier == 'quick' else 400000
    yield ['campaign', shard, runs, 'empty' if shard % 2 == 0 else 'seeded']


def seed_corpus(d):
    seeds = ['SUM(1,2,3)*4+A1', 'IF(1<2,"a","b")&"c"', '{1,2;3,4}', 'A1:B2', '$A$1+B$2', '-1%', '2^3', '#N/A', 'INDEX({1,2,3},2)', 'MATCH("a*",{"ab","cd"},0)', 'TEXT(1234.5,"#,##0.00")',
             'DATE(2019,11,20)+1', "'x'&'y'", 'HF(v_a;v_s)', 'SUMIFS({1;4;5},{3;5;9},"<7")', 'SUBSTITUTE("abc","b","",1)', 'ROMAN(499,2)', 'BASE(255,16,8)', 'v_l*2', 'TRUE=1']
    for i, s in enumerate(seeds):
        with open(os.path.join(d, 'seed%02d' % i), 'wb') as f:
            f.write(s.encode('utf-8'))


def check_fuzz(case):
    if case[0] == 'input':
        text = bytes.fromhex(case[1]).decode('utf-8', 'surrogateescape')
        if bigcost(text):
            raise Skip('big-integer-cost')
        guarded_parse(make_parser(), text, what='fuzz input')
        return
    _, shard, runs, corpus_kind = case
    try:
        sys.path.append(os.path.join(ROOT, '.deps'))
        import atheris  # noqa
    except Exception as e:
        raise Skip('atheris-unavailable')
    work = tempfile.mkdtemp(prefix='hx-fuzz-')
    try:
        corpus = os.path.join(work, 'corpus')
        os.makedirs(corpus)
        if corpus_kind == 'seeded':
            seed_corpus(corpus)
        dic = os.path.join(work, 'dict')
        with open(dic, 'w') as f:
            for w in fn_names() + [l for l in LEXEMES if l.isprintable() and l.isascii() and l.strip()]:
                f.write('"%s"\n' % w.replace('\\', '\\\\').replace('"', '\\"'))
        seedv = int(os.environ.get('VERIF_SEED', '1') or '1') * 1000 + shard + 1
        cmd = [sys.executable, os.path.join(ROOT, 'hx', 'fuzz', 'parse_target.py'), '-runs=%d' % runs, '-seed=%d' % seedv, '-max_len=120', '-timeout=120',
               '-dict=' + dic, '-artifact_prefix=' + work + '/', '-print_final_stats=1', corpus]
        env = dict(os.environ)
        env['HX_SNAP_DIR'] = snapshot.directory()
        p = subprocess.run(cmd, env=env, stdout=subprocess.PIPE, stderr=subprocess.STDOUT, timeout=3600)
        out = p.stdout.decode('utf-8', 'replace')
        m = re.search(r'stat::number_of_executed_units:\s*(\d+)', out)
        done = int(m.group(1)) if m else 0
        ncorp = len(os.listdir(corpus))
        _FUZZ[shard] = (done, ncorp)
        arts = [f for f in os.listdir(work) if f.startswith(('crash-', 'timeout-', 'oom-', 'leak-'))]
        if arts:
            with open(os.path.join(work, arts[0]), 'rb') as f:
                data = f.read()
            text = data.decode('utf-8', 'surrogateescape')
            inp = ['input', data.hex()]
            # decide with the deterministic oracle; a libFuzzer artifact the oracle does not confirm is inconclusive
            try:
                guarded_parse(make_parser(), text, what='fuzz input')
            except Violation as v:
                v.case = inp
                raise
            tail = out[-600:]
            if arts[0].startswith(('timeout-', 'oom-')):
                # libFuzzer's per-input limits are wall-clock time and resident memory; a starved process on a loaded machine trips the first, an input
                # whose value is a huge integer or text (outside what this property's step budget decides, see the scope note in DESIGN.md) the second,
                # on inputs that the deterministic oracle (just applied above) evaluates to a well-formed record.  Not a verdict on the code: the campaign ended early.
                _FUZZ[shard] = (done, ncorp)
                _FUZZ_NOTES.append('campaign %d stopped after %d executions: libFuzzer resource limit (%s) on %r, which the oracle does not confirm' % (shard, done, arts[0].split('-')[0], text[:60]))
                return
            raise RuntimeError('libFuzzer saved %s but the oracle does not confirm it (inconclusive): %s' % (arts[0], tail))
        if p.returncode != 0 or done == 0:
            raise RuntimeError('fuzz target failed (rc=%s): %s' % (p.returncode, out[-800:]))
    finally:
        shutil.rmtree(work, ignore_errors=True)


_FUZZ_NOTES = []


def fuzz_weight(case):
    if case[0] == 'campaign':
        return _FUZZ.get(case[1], (0, 0))[0] or 1
    return 1


def fuzz_ntweight(case):
    if case[0] == 'campaign':
        return _FUZZ.get(case[1], (0, 0))[1] or 1
    return 1


LAWS = [
    Law('strings', check_string, strategy=string_case, classes=string_classes, nontrivial=string_nontrivial, quick=12000, thorough=400000, shards=(16, 16),
        required=('gen:unicode', 'gen:soup', 'gen:mutated', 'gen:valid', 'gen:bigint', 'gen:digitish'),
        rule='(a) arbitrary Unicode text incl. surrogates and NUL up to 200 characters, (b) soups of 1-30 lexemes of every token class plus characters the lexer has no rule for, (c) valid generated formulas truncated / with a token deleted, duplicated, swapped or an unbalanced bracket or quote inserted, (d) valid formulas, (e) formulas whose value is an integer far beyond the double range (a^b, FACT, POWER, PRODUCT), (f) strings of characters that Unicode classes as digits without being decimal digits, and digit strings of 4300-6000 characters; a third of the inputs with debug output on: '
             'parse returns within the step budget a record {result, error} with a canonical or empty error, an empty result when the error is set, and never an error object as result; non-trivial = at least 3 characters'),
    Law('repetitive', check_patho, strategy=patho_case, quick=3000, thorough=60000, shards=(16, 16), shrink=False,
        key=lambda c: 'cpu-time', nontrivial=lambda c: c['n'] >= 8,
        classes=lambda c: (('unterminated-quote' if c['prefix'][-1:] in ('"', "'") and not c['suffix'][:1] in ('"', "'") else 'other'), 'n>=20' if c['n'] >= 20 else 'n<20', 'n>=400' if c['n'] >= 400 else 'n<400'), required=('unterminated-quote', 'n>=20', 'n>=400'),
        rule='a fragment of 1-4 characters (backslash pairs, quotes, dots, brackets, markers, operators ...) repeated 1-25 times (one case in five: 400, 1200 or 2500 times, under the default recursion limit) after an opening context (an open quote, SUM(, ...) and before an optional closer - the shape that makes a backtracking '
             'token pattern explode: the record is well-formed and the evaluation uses at most 2 s of CPU time of its thread (ordinary inputs of that length take ~1 ms; CPU time, not wall clock, so machine load does not enter)'),
    Law('own_record', check_tamper, strategy=st.fixed_dictionaries({'f': st.lists(st.sampled_from(TAMPER_FORMULAS), min_size=1, max_size=5)}), quick=300, thorough=5000, shards=(4, 8),
        key=lambda c: 'shared-record', nontrivial=lambda c: len(c['f']) >= 2,
        rule='1-5 formulas (incl. the empty string, blanks, errors) evaluated, each returned record then overwritten by the host (result, error, an extra key), and evaluated again on the same and on another parser: every record is again well-formed and equal to the first outcome'),
    Law('termination', check_term, enumerate=enum_term, key=lambda c: c[0] + '-termination', shards=(8, 16), exhaustive=False,
        rule='37 function/arity pairs with loops, repetition or size arguments x a 32-value boundary pool (-2^40 .. 10^15, fractions just above 1 such as 1.01/1.5/1.9, 36.5, inf, nan, text, blank, logicals; all pairs in the first two slots): a well-formed record within the step budget'),
    Law('arity_sweep', check_arity, enumerate=enum_arity, key=arity_key, shards=(16, 16), exhaustive=False,
        rule='every name of formulas.supported() x arity 0, 1, 2 in full over a pool of 24 values holding one or more of every type (blank, logicals, integers, floats incl. inf/nan, text, numeric text, date text, a date-time, flat / 2-D / empty arrays, an error value) '
             'plus deterministic samples of arity 3 (all 13824 tuples per function in thorough) and arity 4; same oracle, every call under the step budget'),
    Law('host_faults', check_fault, strategy=fault_case, key=fault_key, classes=fault_classes, quick=6000, thorough=200000, shards=(16, 16),
        required=('fn:ret', 'fn:raise', 'fn:raise_err', 'fn:ret_fresh_err', 'fn:raise_badstr', 'fn:reenter', 'fn:raise_chained', 'fn:resubscribe', 'listener:raise', 'setter-used'),
        rule='20 formulas touching a custom function, a variable, a cell, a range and built-ins, with every host callback (the function, 0-2 listeners per event kind) given a generated behaviour: return any value, return a fresh / subclassed / unprintable error object with any message, '
             'raise any of 18 exception types with any message (incl. canonical codes and none), raise an error singleton or a fresh error, raise an exception whose str() fails, call the setter 0-3 times with anything, re-enter parse(); both debug settings'),
    Law('thread_and_reentry', check_thread_use, strategy=st.fixed_dictionaries({'f': st.integers(0, len(THREAD_FORMULAS) - 1), 'debug': st.booleans()}), quick=40, thorough=600, shards=(8, 16), shrink=False,
        key=lambda c: 'thread' if 'REENTER' not in THREAD_FORMULAS[c['f']] else 'reentry',
        rule='22 formulas (empty, valid, failing in every way, a custom function that evaluates on the same parser, two levels deep) evaluated in a thread other than the one that built the parser, with line tracing: '
             'the call returns a well-formed record; an escaping exception is reported, and so is a thread that stops executing lines for 8 s without returning (blocked on a lock - a step budget cannot see that)'),
    Law('large_host_values', check_big, enumerate=enum_big, shards=(16, 16), key=lambda c: 'large-host-value', guard=1200,
        rule='44 formulas (aggregates, criteria functions, lookups, element-wise arithmetic, text joins) over host values the size of a sheet column: a variable or a listener-served range of 20000 and of 80000 rows (two-cell rows, one-cell rows, a flat list, '
             'empty rows, a list nested 20000 deep; in thorough also 60000 / 240000 rows): a well-formed record; four times the rows must not cost more than eight times the CPU time of the evaluating thread once that is above 4 s '
             '(the slowest of these formulas takes about 0.4 s for 80000 rows)'),
    Law('fuzz', check_fuzz, enumerate=enum_fuzz, shards=(4, 16), weight=fuzz_weight, nt_weight=fuzz_ntweight, key=lambda c: 'fuzz', guard=3700,
        rule='atheris/libFuzzer campaigns on parse() with coverage instrumentation of hotxlfp and ply, a dictionary of all function names and lexemes, alternately an empty and a seeded corpus, the oracle inside the target '
             '(4 x 12000 executions in quick, 16 x 400000 in thorough); evaluations = executed units, distinct non-trivial counted conservatively as the number of coverage-increasing corpus entries'),
]

LEVEL_TEXT = 'Host values the size of a sheet column (cost must grow with the size, not with its square); Evaluation from a thread other than the one that built the parser and re-entrant evaluation, with blocked-thread detection; Generated-input search for a counter-example to totality: Hypothesis over four string generators and over host-callback behaviours, an enumerated function x arity x value-pool sweep (arities 0-2 complete), and coverage-guided atheris campaigns, all with the same well-formedness oracle and a deterministic step budget for termination.'
LEVEL_NOTE = 'Trusted: the oracle in hx/checks/c01.py, sys.settrace line counting. C-level cost (big integers) is bounded by construction of the inputs, not observed.'
TECHNIQUE = 'property-based testing (Hypothesis) + exhaustive arity/value-pool sweep + coverage-guided fuzzing (atheris/libFuzzer) with an in-target oracle and deterministic step budget'
