"""C02 - evaluation is a pure, repeatable function of formula and registered bindings."""
import contextlib
import copy
import datetime
import gc
import io
import json
import os
import types

from hypothesis import strategies as st

from .. import gen_formula as gf
from ..env import errors, hot
from ..law import Law, Violation, Skip
from ..values import enc, same_outcome, CODES9

RULE = 'C02: histories of parse calls (valid, syntactically wrong, failing at run time, aborted by raising callbacks, re-entrant) before a probe evaluation; both debug settings; host-supplied (nested) lists; repetition counts 50-200'
ASSUMPTIONS = ['formulas using NOW, TODAY, RAND, RANDBETWEEN are not generated (the statement exempts clock and random source)',
               'host callbacks used here are themselves pure',
               'retention: growth of gc-tracked objects over N repetitions must stay below N/2 (a per-evaluation leak adds at least one object or memory block per evaluation; caches are saturated by 5 warm-up evaluations and by taking the smaller of two consecutive windows) and the traceback chains of the shared error objects must not grow']

# ---------------------------------------------------------------- shared bindings

CELLS = {'B2': 6, 'C3': 'cell text', 'D4': None, 'E5': 2.5}
RANGE = [[1, 2], [3, 4]]


def make(debug, cells=None):
    cells = CELLS if cells is None else cells
    P = hot().Parser(debug=debug)
    err = errors()
    P.set_variable('v_a', 4)
    P.set_variable('v_s', 'txt')
    P.set_variable('v_l', [1, 2, 3])
    P.set_variable('v_e', err.NUM)
    P.set_variable('v_data', err.DATA)
    P.set_function('ID', lambda x: x)

    def boom(*a):
        raise ValueError('host failure')

    def xboom(*a):
        raise err.REF

    def inner_fail(*a):
        return P.parse('1+*2')['error']

    def inner_ok(*a):
        return P.parse('SUM(1,2)+v_a')['result']
    counter = [0]

    def varboom(*a):
        counter[0] += 1
        raise ValueError('unexpected reading %d.%d for row %d' % (counter[0], counter[0] * 7, counter[0] * 13))
    def ctxboom(*a):
        # a host function that handles one spreadsheet error and raises another (shared) one from inside the handler
        try:
            raise err.NOT_AVAILABLE
        except err.XLError:
            raise err.VALUE

    def ctxnest(*a):
        # ... or that evaluates a failing fall-back formula on this parser from inside the handler
        try:
            raise err.NUM
        except err.XLError:
            return P.parse('BOOM(1)')['error']
    class BadRepr(object):
        def __repr__(self):
            raise RuntimeError('repr() of this host object fails')
        __str__ = __repr__
    deep = [1]
    for _ in range(3000):
        deep = [deep]
    P.set_variable('v_badrepr', BadRepr())
    P.set_variable('v_deep', deep)
    # a callFunction listener that edits the argument list it is handed (legal: the list is the call's own), and a function that counts its arguments
    P.set_function('ZARGS', lambda *a: len(a))
    P.on('callFunction', lambda name, args, setter: args.append(5) if name == 'ZARGS' else None)
    P.set_function('CTXBOOM', ctxboom)
    P.set_function('CTXNEST', ctxnest)
    P.set_function('VARBOOM', varboom)
    P.set_function('BOOM', boom)
    P.set_function('XBOOM', xboom)
    P.set_function('INNERFAIL', inner_fail)
    P.set_function('INNEROK', inner_ok)

    def cell_listener(cell, setter):
        k = cell.label.replace('$', '')
        if k == 'Z9':
            raise KeyError('listener failure')
        if k in cells:
            setter(cells[k])
        elif k[:1] in 'FGH':
            setter(cell.row.index * 100 + cell.col.index)       # columns F-H answer from the coordinates handed over
    P.on('callCellValue', cell_listener)
    P.on('callRangeValue', lambda s, e, setter: setter(copy.deepcopy(RANGE) if s.col.index < 5 else [s.row.index, s.col.index, e.row.index, e.col.index]))
    # onlookers: listeners that, for one name and one cell, run a complete evaluation on this same parser (with references of its own) and answer nothing
    P.set_variable('v_look', 21)
    P.on('callVariable', lambda name, setter: P.parse('F6+LEN("ab")') if name == 'v_look' else None)
    P.on('callCellValue', lambda cell, setter: P.parse('H8*2') if cell.label == 'G9' else None)
    return P


def quiet_parse(P, text):
    # an exception escaping from parse() is an outcome of its own kind here (it differs from every record), so that e.g.
    # "raises with debug on, returns a record with debug off" shows up as the difference it is
    try:
        if P.debug:
            with contextlib.redirect_stderr(io.StringIO()):
                return P.parse(text)
        return P.parse(text)
    except Exception as e:
        return {'result': None, 'error': 'RAISED ' + type(e).__name__}


leaf = st.one_of(st.sampled_from(['1', '2', '7']).map(lambda s: ['num', s]), st.just(['dec', '0.5']), st.sampled_from(['v_a', 'v_s', 'v_l', 'TRUE']).map(lambda n: ['var', n]),
                 st.sampled_from(['B2', 'C3', 'D4', 'E5']).map(lambda n: ['cell', n]), st.just(['range', 'A1', 'B2']), st.just(['str', 'lit', '"']))


def trees(extra_calls=()):
    def extend(ch):
        return st.one_of(
            st.tuples(st.just('bin'), st.sampled_from(gf.ARITH + gf.CMP + ['&']), ch, ch).map(list),
            st.tuples(st.just('neg'), ch).map(list),
            st.tuples(st.just('call'), st.sampled_from(['SUM', 'IF', 'ID', 'CONCATENATE', 'IFERROR', 'MAX', 'INDEX', 'LEN', 'INNEROK'] + list(extra_calls)), st.lists(ch, min_size=1, max_size=3)).map(list),
            st.tuples(st.just('arr'), st.lists(ch, min_size=1, max_size=3)).map(list))
    return st.recursive(leaf, extend, max_leaves=6).map(gf.render)


valid = trees()
failing = st.one_of(
    st.sampled_from(['1+', '((2)', 'SUM(1,', '2(6+2)', '"open', "1 2", '}{', ')', 'A1:', '1..2', '~', '@x', '1 ~ 2', 'é+1', '\x00', '"\ud800"+', '"é"+', 'NOSUCH("\udc80")', '日本+', 'SUM(H8:F6)', 'MAX(g7:F9)+', 'H8:F6',  # syntax / lexical errors, reversed ranges
                     '1/0', 'v_s+1', 'nosuch', 'NOSUCH(1)', 'SUM(v_e)', 'v_e', 'INDEX(v_l,9)', 'SQRT(-1)', 'IF()', 'LEFT(1)', 'MAX("a")',                # run-time errors
                     '#N/A', '1+#REF!', '#GETTING_DATA', '#NULL!',                                                                                       # error literals
                     'BOOM(1)', '1+BOOM(2)*3', 'XBOOM()', 'SUM(1,XBOOM())', 'Z9', 'Z9+1', 'IFERROR(BOOM(),1)', 'CONCATENATE(1/0)', 'IFERROR(CONCATENATE(1/0),1)',  # raising callbacks
                     'INNERFAIL(1)', '1+INNERFAIL(BOOM(1))', 'ID(INNERFAIL())+BOOM()', 'CTXBOOM()', '1+CTXBOOM(2)', 'IFERROR(CTXBOOM(),1)', 'CTXNEST()', 'CTXNEST()&CTXBOOM()', 'ZARGS()', 'ZARGS()+ZARGS(1)', 'ZARGS()&BOOM()']),                                                                # nested failures
    trees(extra_calls=('BOOM', 'XBOOM', 'INNERFAIL')),
    valid.map(lambda s: s[:max(1, len(s) // 2)]),
)
other_reg = st.tuples(st.just('$other'), st.sampled_from(['ID', 'EXTRA', 'SUM', 'INNEROK', 'v_a', 'v_other']), st.integers(0, 9)).map(list)
rebinding = st.one_of(other_reg, st.tuples(st.just('$set'), st.sampled_from(['v_a', 'v_s', 'v_l', 'v_new']), st.one_of(st.integers(-9, 99), st.sampled_from(['other', 2.5, None]), st.lists(st.integers(0, 9), min_size=1, max_size=4))).map(list),
                      st.tuples(st.just('$cell'), st.sampled_from(['B2', 'C3', 'D4', 'E5']), st.one_of(st.integers(-9, 99), st.sampled_from(['changed', 0, None]))).map(list))
history_case = st.fixed_dictionaries({'debug': st.booleans(), 'history': st.lists(st.one_of(failing, failing, valid, rebinding), min_size=1, max_size=12),
                                      'probes': st.lists(st.one_of(valid, valid, failing, st.sampled_from(['EXTRA(1)', 'ID(2)+SUM(1,2)', 'v_other', 'v_a+1', 'INNEROK(1)']),
                                                                  # values that cannot be printed: integers beyond the 4300-digit conversion limit, a host object whose repr() fails, a list nested 3000 deep
                                                                  st.sampled_from(['FACT(2000)>0', 'MOD(FACT(3000),7)', '2^20000>1', 'ISNUMBER(FACT(2500))', 'IF(1,2,v_badrepr)', 'ISTEXT(ID(v_badrepr))', 'COUNT(v_deep)', 'IF(1,2,v_deep)', 'LEN(FACT(2000))'])),
                                                min_size=1, max_size=3)})


def apply_binding(P, cells, h, others=None):
    if h[0] == '$set':
        P.set_variable(h[1], h[2])
    elif h[0] == '$other':
        # a registration made on a *different* parser object: must not matter to P (the fresh reference never sees it)
        if others is not None:
            Q = others.setdefault('Q', hot().Parser())
            if h[1].startswith('v_'):
                Q.set_variable(h[1], 7000 + h[2])
            else:
                Q.set_function(h[1], lambda *a, k=h[2]: 7000 + k)
            Q.parse('%s(1)' % h[1] if not h[1].startswith('v_') else h[1])
    else:
        cells[h[1]] = h[2]


def check_history(case):
    debug = case['debug']
    cells = dict(CELLS)
    P = make(debug, cells)
    fresh0 = [quiet_parse(make(debug), p) for p in case['probes']]
    other = [quiet_parse(make(not debug), p) for p in case['probes']]
    for p, a, b in zip(case['probes'], fresh0, other):
        if not same_outcome(a, b):
            raise Violation('debug=%r and debug=%r give different outcomes for %r: %r vs %r' % (debug, not debug, p, a, b), enc(a['result']) if a['error'] is None else a['error'], enc(b['result']) if b['error'] is None else b['error'])
    for p in case['probes']:
        quiet_parse(P, p)           # the probes are evaluated before the history too (a cache would be primed here)
    applied = []
    others = {}
    for step, h in enumerate(case['history']):
        if isinstance(h, list):
            apply_binding(P, cells, h, others)
            applied.append(h)
            got_now = [quiet_parse(P, p) for p in case['probes']]       # before any other parser is built
            # the reference is a fresh parser that received the same (re)bindings and nothing else
            fcells = dict(CELLS)
            F = make(debug, fcells)
            for b in applied:
                apply_binding(F, fcells, b)
            fresh0 = [quiet_parse(F, p) for p in case['probes']]
            for p, g, w in zip(case['probes'], got_now, fresh0):
                if not same_outcome(g, w):
                    raise Violation('after the history %r the long-lived parser (debug=%r) evaluates %r to %r, a fresh parser given the same registrations to %r' % (case['history'][:step + 1], debug, p, g, w),
                                    enc(g['result']) if g['error'] is None else g['error'], enc(w['result']) if w['error'] is None else w['error'])
        else:
            quiet_parse(P, h)
        # fixed facts (no reference parser involved): cells of columns F-H are answered from their coordinates
        # ... and a formula whose callbacks run a failing and then a succeeding evaluation on this same parser before the formula goes on
        for p, w in (('F6', 505), ('H8', 707), ('G7+0', 606), ('SUM(F6:H8)', 5 + 5 + 7 + 7), ('SUM(H8:F6)', 24), ('INNERFAIL(1)&"/"&(LEN(INNEROK(1)&"..")*0)&"/"&F6&LEN("abc")', '#ERROR!/0/5053'),
                     ('v_look*2+1', 43), ('G9+0', 806), ('v_look&G9&v_look', '2180621')):        # (references watched by an onlooker that evaluates and answers nothing)
            g = quiet_parse(P, p)
            if g['error'] is not None or g['result'] != w:
                raise Violation('after the history %r the parser evaluates %r to %r; its listener answers from the coordinates of the reference, which give %r' % (case['history'][:step + 1], p, g, w), g['error'] or enc(g['result']), w)
        # error codes are facts too: whatever was raised, chained or handled before, these fail with their own code
        for p, w in (('"q"+1', '#VALUE!'), ('1/0', '#DIV/0!'), ('NA()', '#N/A'), ('IFERROR("q"+1,"trapped")', None), ('CTXNEST()', None), ('XBOOM()', '#REF!'), ('BOOM()', '#ERROR!'), ('ZARGS()*100+ZARGS(7,8)*10+(PI()>3)', None)):
            g = quiet_parse(P, p)
            if g['error'] != w or (w is None and g['result'] != {'IFERROR("q"+1,"trapped")': 'trapped', 'CTXNEST()': '#ERROR!', 'ZARGS()*100+ZARGS(7,8)*10+(PI()>3)': 21}[p]):
                raise Violation('after the history %r the parser evaluates %r to %r; expected %s' % (case['history'][:step + 1], p, g, w or 'no error'), g['error'] or enc(g['result']), w)
        # names that were only ever registered on the other parser object stay unknown here
        for p in ('EXTRA(1)', 'v_other'):
            g = quiet_parse(P, p)
            if g['error'] != '#NAME?':
                raise Violation('after the history %r the parser evaluates %r to %r although that name was registered on a different parser object only' % (case['history'][:step + 1], p, g), g['error'] or enc(g['result']), '#NAME?')
        for p, want in zip(case['probes'], fresh0):
            got = quiet_parse(P, p)
            if not same_outcome(got, want):
                raise Violation('after the history %r the long-lived parser (debug=%r) evaluates %r to %r, a fresh parser to %r' % (case['history'][:step + 1], debug, p, got, want),
                                enc(got['result']) if got['error'] is None else got['error'], enc(want['result']) if want['error'] is None else want['error'])


def hist_classes(case):
    out = []
    hs = ' '.join(h for h in case['history'] if isinstance(h, str))
    if any(isinstance(h, list) for h in case['history']):
        out.append('rebinding')
    if any(isinstance(h, list) and h[0] == '$other' for h in case['history']):
        out.append('other-parser-registration')
    if 'BOOM' in hs or 'Z9' in hs:
        out.append('callback-aborted')
    if 'CTX' in hs:
        out.append('raised-inside-handler')
    if 'INNERFAIL' in hs:
        out.append('nested-failure')
    if any(isinstance(h, str) and h in ('1+', '((2)', 'SUM(1,', '"open', ')', '}{') for h in case['history']):
        out.append('syntax-error')
    if '#' in hs:
        out.append('error-literal')
    out.append('debug:%s' % case['debug'])
    return out


# ---------------------------------------------------------------- long histories of failing evaluations on one parser

LONG_FAIL = ['nosuch', 'NOSUCH(1)', '1+', '((', '#N/A', '1+#REF!', 'BOOM(1)', 'XBOOM()', 'Z9', '~', 'SUM(v_e)', 'CTXBOOM()', 'INNERFAIL(1)', 'IFERROR(BOOM(),1)', '1/0', 'v_s+1', 'VARBOOM()', '"open', 'ZARGS()', '2*3']


def check_long_history(case):
    P = make(case['debug'])
    pat = case['pattern']
    for i in range(case['n']):
        f = LONG_FAIL[pat[i % len(pat)]]
        quiet_parse(P, f)
        g = quiet_parse(P, '1+SUM(F6:H8)*2+LEN("abc")')
        if g['error'] is not None or g['result'] != 52:
            raise Violation('after %d evaluations on one parser (repeating %r, debug=%r) 1+SUM(F6:H8)*2+LEN("abc") gives %r instead of 52' % (i + 1, [LONG_FAIL[j] for j in pat], case['debug'], g), g['error'] or enc(g['result']), 52)


# ---------------------------------------------------------------- no mutation of host values

MUT_FORMULAS = [
    # host values that can be walked only once (an iterator, a generator, a map object): walking them uses them up, which is a change the host can see
    'SUM(v_it)', 'COUNT(v_gen,v_l)', 'AND(v_mp)', 'CONCATENATE(v_it,v_gen)', 'AVERAGE(v_l,v_gen)', 'v_it', 'IF(TRUE,v_gen,0)', 'MAX(v_mp,1)', 'COUNTA(v_it,v_mp)', 'TEXTJOIN(",",TRUE,v_gen)', 'OR(v_it,v_l)', 'v_gen&"x"', 'HF(v_it,v_gen)',
    # host lists holding error objects, as the value of the whole formula or passed through selecting functions
    'v_le', 'IF(TRUE,v_le,0)', 'IFERROR(v_le,0)', 'INDEX(v_le,0,0)', 'v_ne', 'INDEX(v_ne,2)', 'CHOOSE(1,v_le,1)', '{v_le,1}', 'ISERROR(INDEX(v_le,2))', 'v_le&""', 'COUNT(v_le)',
    # several host lists handed to one call of a function that flattens its arguments
    'COUNT(v_l,v_m)', 'AND(v_l,v_m)', 'OR(v_m,v_l,v_k)', 'XOR(v_n,v_l)', 'COUNTA(v_l,v_m,v_t)', 'COUNT(v_n,v_n)', 'AVERAGEIF(v_n,">0")', 'COUNTBLANK(v_l,v_m)', 'CONCATENATE(v_l,v_m)', 'TEXTJOIN("",TRUE,v_l,v_m)', 'COUNT(B2:C3,v_n)',
    'MAX(v_l,v_m)', 'MEDIAN(v_l,v_m)', 'AVEDEV(v_n,v_l)', 'SUM(v_n,v_n)', 'AND(B2:C3,B2:C3)',
    'v_one*v_l', 'v_one+{1,2,3}', 'v_l-v_one', 'v_one/v_m', 'SUM(v_one*v_l)+SUM(v_one*{1,2})', 'v_row+v_n', 'v_row*{1,2;3,4}', 'v_one&"x"', 'v_one=v_one',
    'v_l*2', '2*v_l', 'v_l+v_m', 'v_m-1', '-1+v_m', 'v_l/2', '{v_l,1}', '{1,v_l}', '{v_l;v_m}', 'HF(v_l,,v_m)', 'HF(,v_l)', 'HF(v_l,)', 'HF(v_l;v_m;1)',
    'SUM(v_l,v_m)', 'SUM(v_n)', 'PRODUCT(v_n)', 'AVERAGE(v_n)', 'MIN(v_n)', 'MAX(v_n)', 'COUNT(v_n)', 'MEDIAN(v_n)', 'MODE(v_k)', 'VAR(v_n)', 'STDEV(v_n)', 'AVEDEV(v_n)', 'LARGE(v_n,2)', 'LARGE(v_m,1)',
    'INDEX(v_m,2)', 'INDEX(v_n,1)', 'INDEX(v_n,1,2)', 'INDEX(v_n,0,1)', 'INDEX(v_n,1)*2', 'MATCH(2,v_m,0)', 'MATCH(2,v_m,1)', 'TEXTJOIN(",",TRUE,v_t)', 'CONCATENATE(v_t,v_l)', 'SUMIFS(v_l,v_m,">1")',
    'SUMIF(v_l,">1")', 'COUNTIF(v_t,"a*")', 'AVERAGEIF(v_l,">0",v_m)', 'MAXIFS(v_l,v_m,">0")', 'AND(v_l)', 'OR(v_n)', 'XOR(v_l)', 'IF(TRUE,v_l,v_m)', 'IFERROR(v_l,1)', 'CHOOSE(1,v_l,v_m)',
    'SWITCH(1,1,v_l,v_m)', 'B2:C3', 'SUM(B2:C3)', 'B2:C3*2', 'INDEX(B2:C3,1)', '{B2:C3,v_l}', 'HF(B2:C3)', 'HG(v_l)', 'HG(v_l)+1', 'SUM(HG(v_m))', 'E5', 'E5*2', 'INDEX(E5,2)', 'HF(E5,v_l)&"x"',
    'COUNTA(v_dt)', 'v_dt', 'COUNT(v_dt,v_l)', 'MAX(v_dt)', 'v_dn', 'COUNTA(v_dn)', 'INDEX(v_dt,1)', 'YEAR(INDEX(v_dt,1))', 'v_dt+1', 'SUM(v_dn)', 'HF(v_dt,v_dn)', 'IF(TRUE,v_dn,0)', 'COUNTA(B2:C3)', 'COUNTA(E5)',
    'v_l&"x"', 'v_l=v_m', 'LEN(v_t)', 'AVERAGEA(v_t,v_l)', 'COUNTA(v_n)', 'COUNTBLANK(v_n)', 'SLOPE(v_l,v_m)', 'GEOMEAN(v_l)', 'HARMEAN(v_m)', 'ISERROR(v_l)', 'N(v_l)', 'T(v_t)', 'v_l+', 'SUM(v_l']


def id_tree(x):
    if isinstance(x, list):
        return (id(x), tuple(id_tree(e) for e in x))
    return None


@st.composite
def mut_case(draw):
    small = st.one_of(st.integers(-5, 9), st.integers(1, 5))
    return {'formulas': draw(st.lists(st.sampled_from(MUT_FORMULAS), min_size=1, max_size=4)),
            'l': draw(st.lists(small, min_size=3, max_size=3)), 'm': draw(st.lists(small, min_size=3, max_size=3)),
            'n': [draw(st.lists(small, min_size=2, max_size=2)), draw(st.lists(small, min_size=2, max_size=2))],
            'k': draw(st.lists(st.integers(1, 3), min_size=4, max_size=6)),
            't': draw(st.lists(st.sampled_from(['ab', 'cd', 'a', '']), min_size=2, max_size=4))}


def snapshot_lists(v):
    # a copy of the list structure; whatever is not a list (numbers, text, the library's shared error objects) is kept as the very object,
    # so that "unchanged" means the same items at the same places
    if isinstance(v, list):
        return [snapshot_lists(x) for x in v]
    return v


def same_items(a, b):
    if isinstance(a, list) or isinstance(b, list):
        return isinstance(a, list) and isinstance(b, list) and len(a) == len(b) and all(same_items(x, y) for x, y in zip(a, b))
    return a is b or (type(a) == type(b) and a == b)


def check_mutation(case):
    host = {'v_l': list(case['l']), 'v_m': list(case['m']), 'v_n': [list(r) for r in case['n']], 'v_k': list(case['k']), 'v_t': list(case['t']), 'v_one': [case['l'][0]], 'v_row': [list(case['m'])],
            'v_le': [case['l'][0], errors().NOT_AVAILABLE, case['l'][1], errors().DIV_ZERO], 'v_ne': [[1, errors().NUM], [errors().REF, 4]],
            # calendar values of both kinds among the items (a date is not a date-time: turning one into the other inside the host's list is a change)
            'v_dt': [datetime.date(2020, 2, 29), case['l'][0], datetime.datetime(2021, 1, 1, 6, 0)], 'v_dn': [[datetime.date(1999, 12, 31), 1], [2, datetime.date(2024, 3, 1)]]}
    rng = [[1, 2], [3, datetime.date(2019, 5, 17)]] if case['l'][0] % 2 else [[1, 2], [3, 4]]
    cellv = [7, [8, 9], datetime.date(2018, 1, 1)] if case['m'][0] % 2 else [7, [8, 9]]
    ret = [10, 20, 30]
    seen_args = []
    P = hot().Parser()
    for k, v in host.items():
        P.set_variable(k, v)
    once = {'v_it': (iter(list(case['l'])), list(case['l'])), 'v_gen': ((x for x in list(case['m'])), list(case['m'])), 'v_mp': (map(float, list(case['k'])), [float(x) for x in case['k']])}
    for k, (it, _) in once.items():
        P.set_variable(k, it)

    def hf(*args):
        for a in args:
            if isinstance(a, list):
                seen_args.append((a, snapshot_lists(a), id_tree(a)))
        return len(args)
    P.set_function('HF', hf)
    P.set_function('HG', lambda x: ret)
    P.on('callRangeValue', lambda s, e, setter: setter(rng))
    P.on('callCellValue', lambda c, setter: setter(cellv))
    tracked = dict(host)
    tracked.update({'range value': rng, 'cell value': cellv, 'function return value': ret})
    before = dict((k, (snapshot_lists(v), id_tree(v))) for k, v in tracked.items())
    for f in case['formulas']:
        P.parse(f)
        for k, v in tracked.items():
            if not same_items(v, before[k][0]):
                raise Violation('evaluating %r changed the host\'s %s from %r to %r' % (f, k, before[k][0], v), enc(v), enc(before[k][0]))
            if id_tree(v) != before[k][1]:
                raise Violation('evaluating %r replaced a list inside the host\'s %s' % (f, k), None, None)
        for a, snap, ids in seen_args:
            if not same_items(a, snap) or id_tree(a) != ids:
                raise Violation('evaluating %r changed a list after it was handed to a custom function: %r -> %r' % (f, snap, a), enc(a), enc(snap))
    for k, (it, items) in once.items():
        left = list(it)
        if left != items:
            raise Violation('after evaluating %r the host\'s %s (an iterator over %r) has only %r left: the evaluation consumed it' % (case['formulas'], k, items, left), enc(left), enc(items))


# ---------------------------------------------------------------- no retention

RETAIN = ['#GETTING_DATA', 'SUM(1,v_data)', 'IFERROR(SUM(1,v_data),0)', '#NULL!', '#NUM!', '#NAME?', '#VALUE!', '#DIV/0!', '#REF!', 'SUM(1,v_e)', 'VARBOOM(1)', '1+VARBOOM()', 'IFERROR(VARBOOM(),1)', '1+1', 'SUM(1,2,3)*4+A1', 'IF(1<2,"a","b")&"c"', '1/0', '1+', '((', 'nosuch', 'NOSUCH(1)', 'SUM(1/0)', 'SUM(v_e)', 'MAX({1,2},NA())', 'IFERROR(CONCATENATE(1/0),1)', 'IFERROR(SUM(1/0),0)',
          '#N/A', '1+#REF!', 'BOOM(1)', 'XBOOM()', 'IFERROR(XBOOM(),1)', 'Z9+1', 'INNERFAIL(1)', 'v_s+1', 'SQRT(-1)', 'MATCH("a*",{"ab","cd"},0)', 'TEXT(1234.5,"#,##0.00")', 'DATEVALUE("2019-11-20")',
          '~', 'INDEX(v_l,9)', 'LEFT(1)', 'AVERAGE({1,2},1/0)', 'PRODUCT(v_e)', 'COUNTIF({"ab","cd"},"a*")', 'ISERROR(MEDIAN(v_e))']


def live_tracebacks():
    n = 0
    for o in gc.get_objects():
        if isinstance(o, (types.TracebackType, types.FrameType)):
            n += 1
    return n


def chain_len(e):
    n = 0
    tb = e.__traceback__
    while tb is not None:
        n += 1
        tb = tb.tb_next
    return n


def deep_size(P):
    """bytes reachable from the parser and from the modules of hotxlfp / ply (other modules, types and frames are not entered)"""
    import sys
    mods = [m for n, m in list(sys.modules.items()) if n == 'hotxlfp' or n.startswith('hotxlfp.') or n in ('ply.lex', 'ply.yacc')]
    allowed = set(id(m) for m in mods)
    seen = set()
    stack = [P] + mods
    total = 0
    while stack:
        o = stack.pop()
        if id(o) in seen:
            continue
        seen.add(id(o))
        if isinstance(o, types.ModuleType) and id(o) not in allowed:
            continue
        if isinstance(o, (type, types.FrameType, types.TracebackType)):
            continue
        total += sys.getsizeof(o)
        stack.extend(gc.get_referents(o))
    return total


def check_retention(case):
    import sys
    f, N, debug = case['f'], case['n'], case['debug']
    err = errors()
    sing = [err.from_message(c) for c in CODES9]
    P = make(debug)
    for _ in range(5):
        quiet_parse(P, f)

    def snap():
        gc.collect()
        return (len(gc.get_objects()), live_tracebacks(), sum(chain_len(e) for e in sing), sys.getallocatedblocks(), deep_size(P))
    per_request = bool(case.get('per_request'))       # a host that builds a parser for every evaluation and drops it afterwards

    def one():
        quiet_parse(make(debug) if per_request else P, f)
    if per_request:
        for _ in range(3):
            one()
    if not per_request:
        # with the automatic collector off (a host that calls gc.disable() or gc.freeze()), what an evaluation leaves in reference cycles stays: there must be none
        gc.collect()
        gc.disable()
        try:
            for _ in range(N):
                one()
            found = gc.collect()
        finally:
            gc.enable()
        if found >= N:
            raise Violation('%d evaluations of %r (debug=%r) with the cyclic collector off left %d objects that only a collection could free (reference cycles: %.0f per evaluation)' % (N, f, debug, found, found / float(N)),
                            {'cyclic garbage': found}, 'none')
    s0 = snap()
    for _ in range(N):
        one()
    s1 = snap()
    for _ in range(N):
        one()
    s2 = snap()
    # a leak per evaluation shows in both windows; a cache that fills once shows in at most one
    grow = [min(s1[i] - s0[i], s2[i] - s1[i]) for i in range(5)]
    # allocated blocks are a noisy measure (buffers of the debug output, lazily filled line caches): used with debug off only, at one block per evaluation
    blocks_bad = (not debug) and (not per_request) and grow[3] >= N      # (building a parser allocates and frees thousands of blocks: too noisy a measure there; a retained parser shows as gc-tracked objects)
    if grow[0] >= N // 2 or grow[1] >= N // 2 or grow[2] > 0 or blocks_bad or grow[4] >= 4 * N:
        raise Violation('%d further evaluations of %r (debug=%r%s) left %d more gc-tracked objects, %d more tracebacks/frames, %d more entries in the shared error objects\' traceback chains, %d more allocated memory blocks, %d more bytes reachable from the parser and the hotxlfp/ply modules '
                        '(the smaller of two consecutive windows)' % (N, f, debug, ', each on a parser of its own that is dropped afterwards' if per_request else '', grow[0], grow[1], grow[2], grow[3], grow[4]),
                        {'objects': grow[0], 'tracebacks': grow[1], 'chain': grow[2], 'blocks': grow[3], 'bytes': grow[4]}, 'no growth')


def ret_key(case):
    return 'retention'


# ---------------------------------------------------------------- the environment of the process is not a binding

ENV_FORMULAS = ['DATE(2020,1,1)+1', 'N(DATE(2019,7,1))', 'DATEVALUE("2023-06-23")', 'HOUR(45100)', 'HOUR(45100.75)&":"&MINUTE(45100.76)', 'DAYS("2023-06-23","2023-01-01")', 'YEAR(DATE(2023,7,1)+184)', '"20 Nov 2019"+1', 'YEAR("2019-11-20")',
                'DATE(2019,3,31)-DATE(2019,3,30)', 'DATE(2019,10,27)-DATE(2019,10,26)', 'EDATE(DATE(2019,3,31),-1)', 'WEEKDAY(DATE(2019,3,10))', 'DATE(1990,4,1)=32964', 'DATEDIF(DATE(2019,1,31),DATE(2019,10,27),"d")', 'TIME(1,30,0)+DATE(2019,3,31)',
                '1+1', 'TEXT(1234.5,"#,##0.00")', 'TEXT(0.25,"0%")', 'UPPER("stra\u00dfe")&LOWER("\u0130")', 'SUM(1,2)&"x"', '"b">"a"', '"\u00e4">"z"', '"a"<"B"', 'ROUND(2.5,0)&ROUND(0.125,2)', '1/3&""', '1e21&""', 'VALUE("1,5")', 'VALUE("1.5")',
                'FIXED(1234.567)', 'DOLLAR(1234.567)', 'CONCATENATE(1.5,TRUE)', 'MATCH("b*",{"Alpha","BETA","bravo"},0)', 'COUNTIF({"a","B","b"},"b")', 'PROPER("hello wORLD")', 'LEN("\U0001f600")', 'CODE("\u00e9")', 'CHAR(233)',
                'SUM({1,2;3,4})', 'IF(1<2,"x","y")', '1+', 'nosuch', 'WEEKDAY("no date")', 'TIMEVALUE(NA())', 'DEGREES(1)', 'LEFT(1,2,3,4)', '2^0.5', 'SQRT(2)', 'EXP(1)', 'FACT(20)', 'DEC2HEX(-1)', 'ROMAN(1994)', 'MOD(-7,3)', 'v_d+1', 'N(v_d)', 'v_s&"!"']
ENVIRONMENTS = [{'TZ': 'CET-1CEST,M3.5.0,M10.5.0/3'}, {'TZ': 'EST5EDT,M3.2.0,M11.1.0'}, {'TZ': 'LHST-10:30LHDT-11,M10.1.0,M4.1.0'}, {'TZ': 'IST-5:30'}, {'PYTHONWARNINGS': 'error'}, {'PYTHONWARNINGS': 'error::DeprecationWarning'},
                {'LC_ALL': 'POSIX', 'LANG': 'POSIX'}, {'LC_ALL': 'C.UTF-8', 'LANG': 'C.UTF-8'}, {'PYTHONHASHSEED': '12345'}, {'PYTHONHASHSEED': '1'}, {'PYTHONDEVMODE': '1'}, {'PYTHONUTF8': '0', 'LC_ALL': 'C'}, {'PYTHONUTF8': '1'},
                {'PYTHONINTMAXSTRDIGITS': '640'}, {'PYTHONMALLOC': 'debug'}, {'TZ': 'Pacific/Apia'}, {'TZ': 'America/St_Johns', 'PYTHONWARNINGS': 'error'}]


def enum_env(tier, shard, nshards):
    for i, e in enumerate(ENVIRONMENTS):
        if i % nshards == shard:
            yield {'env': sorted(e.items()), 'debug': i % 2 == 1}


def check_env(case):
    """The same formulas in a brand-new interpreter under TZ=UTC and under another process environment (time zone given as a POSIX rule, so that no zone
    database is needed; warnings turned into errors; locale variables; hash seed; development mode; ...): every outcome is the same.  -OO is not among them:
    PLY reads the grammar from docstrings, which -OO removes (a limit of the parser generator, recorded in DESIGN.md)."""
    from ..freshproc import run_fresh
    env = dict(case['env'])
    if env.get('TZ', '').count('/') and not os.path.exists('/usr/share/zoneinfo/' + env['TZ']):
        raise Skip('zone-data-missing')
    base = run_fresh(ENV_FORMULAS, debug=case['debug'], env_extra={'TZ': 'UTC'})
    try:
        other = run_fresh(ENV_FORMULAS, debug=case['debug'], env_extra=env)
    except RuntimeError as e:
        raise Violation('in a process started with %s the library cannot evaluate at all (%s); with TZ=UTC alone it can' % (env, str(e)[-300:]), 'no outcome', 'the outcomes of the plain process')
    for f, a, b in zip(ENV_FORMULAS, base, other):
        if a != b:
            raise Violation('in a process started with %s, %s gives %s; in a plain process (TZ=UTC) it gives %s' % (env, f, b, a), b, a)


# ---------------------------------------------------------------- evaluation order in a brand-new interpreter
ORD_FAMILIES = [
    ['TRUE', '1', '1.0', 'v_t', 'v_i', 'v_f', '(2>1)', '1E0', '"1"', '"1.0"', 'v_s', 'v_e', 'DATE(1899,12,31)', '"TRUE"'],
    ['FALSE', '0', '0.0', 'v_u', 'v_o', 'v_z', 'v_nz', '(1>2)', '"0"', '(-0.0)', '"FALSE"', '"0.0"'],
    ['2', '2.0', 'v_w', 'v_x', '"2"', 'v_d', 'DATE(1900,1,1)', '"2.0"', '2E0'],
    ['v_big', 'v_bigf', '9007199254740992', '9007199254740992.0', '9007199254740993', '"9007199254740992"'],
    ['100', '100.0', '1E2', '"100"', '"1E2"', '0.5', '"0.5"', '.5'],
]
ORD_HUGE = ['LEN(FACTDOUBLE(600))', 'LEN(FACTDOUBLE(1200))', 'LEN(FACTDOUBLE(1800))', 'LEN(FACTDOUBLE(1201))', 'LEN(FACT(900))', 'LEN(FACT(1500))', 'LEN(FACT(2000))', 'FACT(2000)&""', 'CONCATENATE(FACT(2000))', 'UPPER(FACT(1800))', 'LEN(FACT(2000)&"")', 'LOWER(2^20000)', 'LEN(10^5000)', '(10^5000)&"x"', 'TEXTJOIN("",TRUE,FACT(2000))', 'PROPER(FACT(1900))', 'CLEAN(FACT(2100))',
            'LEN(%s&"")' % ('1' * 5000), '%s=%s1' % ('1' * 5000, '1' * 5000), 'LEFT(FACT(2000),3)', 'VALUE(FACT(2000)&"")>0', 'T(FACT(2000))', 'EXACT(FACT(2000),1)']       # integers beyond the interpreter's 4300-digit int/str limit
ORD_ATOMS = sorted(set(x for fam in ORD_FAMILIES for x in fam))
ORD_WRAPS = ['(%s)&""', 'TYPE(%s)', '%s', 'ISNUMBER(%s)&ISTEXT(%s)&ISLOGICAL(%s)', 'N(%s)&""', 'T(%s)&"."', 'SUM(%s)&""', 'ABS(%s)&""', '(%s)*1&""', 'IF(%s,"y","n")', 'EXACT(%s,1)', 'MAX(%s,0)&""', '(-(%s))&""', 'TEXTJOIN("/",TRUE,%s)']
ORD_OPS = ['+', '+', '-', '*', '*', '/', '&', '=', '<', '<>', '>=']     # no ^: exact integer powers of 2^53-sized operands run for hours inside CPython (scope note in DESIGN.md)
# one-argument calls over the same families: a result cache on any of these functions that keys by == (or by name across functions) shows up as order dependence
ORD_FUNCS = ['ABS(%s)', 'INT(%s)', 'SIGN(%s)', 'FACT(MIN(%s,25))', 'FACTDOUBLE(MIN(%s,25))', 'SQRT(%s)', 'EVEN(%s)', 'ODD(%s)', 'ROUND(%s,0)', 'ROUNDUP(%s,0)', 'ROUNDDOWN(%s,0)', 'CEILING(%s,1)', 'FLOOR(%s,1)', 'N(%s)', 'T(%s)', 'LEN(%s)',
             'ISEVEN(%s)', 'ISODD(%s)', 'DEC2HEX(%s)', 'BASE(%s,2)', 'ROMAN(%s)', 'CHAR(%s+64)', 'LEFT("abc",%s)', 'RIGHT("abc",%s)', 'REPT("a",%s)', 'CHOOSE(%s+1,"x","y","z")', 'INDEX({5,6,7},%s+1)', 'DATE(2020,%s,1)',
             'EXP(%s)', 'LN(%s+1)', 'COS(%s)', 'POWER(%s,2)', 'MOD(%s,2)', 'QUOTIENT(%s,1)', 'TEXT(%s,"0.0")', 'VALUE(%s)', 'UPPER(%s)', 'TRIM(%s)', 'NOT(%s)', 'AND(%s,1)', 'OR(%s,0)', 'IF(%s,1,2)', 'COUNT(%s)', 'COUNTA(%s)',
             'SUM(%s,0)', 'MAX(%s)', 'MIN(%s)', 'AVERAGE(%s)', 'PRODUCT(%s)', 'MEDIAN(%s)', 'YEAR(%s+40000)', 'WEEKDAY(%s+40000)', 'ERROR.TYPE(%s)', 'ISBLANK(%s)', 'COMPLEX(%s,1)', 'HEX2DEC(%s)', 'DECIMAL(%s,10)', 'ARABIC(ROMAN(%s+1))']
ORD_LISTS = ['SUM(v_l)&""', 'v_l&""', 'v_m&""', 'MAX(v_m)&""', 'v_l=v_m', 'TEXTJOIN("/",TRUE,v_l)', 'TEXTJOIN("/",TRUE,v_m)', 'MATCH(TRUE,v_l,0)', 'MATCH(1,v_m,0)', 'INDEX(v_l,2)&""', 'COUNTIF(v_l,1)', 'COUNTIF(v_m,TRUE)']


@st.composite
def order_formulas(draw):
    if draw(st.integers(0, 7)) == 0:
        return draw(st.lists(st.sampled_from(ORD_HUGE), min_size=2, max_size=4, unique=True))
    fam = draw(st.sampled_from(ORD_FAMILIES))
    atom = st.one_of(st.sampled_from(fam), st.sampled_from(fam), st.sampled_from(fam), st.sampled_from(ORD_ATOMS))
    out = []
    for _ in range(draw(st.integers(2, 6))):
        k = draw(st.integers(0, 11))
        if k == 0:
            out.append(draw(st.sampled_from(ORD_LISTS)))
            continue
        a = draw(atom)
        if k == 1:
            f = draw(st.sampled_from(ORD_FUNCS)).replace('%s', a)
            f = draw(st.sampled_from(['(%s)&""', 'TYPE(%s)', '%s'])).replace('%s', f)
            if f not in out:
                out.append(f)
            continue
        if k <= 3:
            inner = a
        else:
            # the same operand twice is the sharpest observer of a conversion that depends on what was seen before
            inner = '(%s%s%s)' % (a, draw(st.sampled_from(ORD_OPS)), a if k >= 9 else draw(atom))
        f = draw(st.sampled_from(ORD_WRAPS)).replace('%s', inner)
        if f not in out:
            out.append(f)
    if len(out) < 2:
        out.append('TYPE(%s)' % fam[0] if 'TYPE(%s)' % fam[0] not in out else '1+1')
    return out


order_case = st.fixed_dictionaries({'formulas': order_formulas(), 'debug': st.booleans(), 'perm': st.integers(0, 10 ** 6)})


from ..freshproc import run_fresh      # noqa: E402


def check_order(case):
    fs = case['formulas']
    import random
    order = list(range(len(fs)))
    random.Random(case['perm']).shuffle(order)
    if order == list(range(len(fs))):
        order.reverse()
    a = run_fresh(fs, case['debug'])
    b = run_fresh([fs[i] for i in order], case['debug'])
    for j, i in enumerate(order):
        if a[i] != b[j]:
            raise Violation('in a brand-new interpreter %r gives %s when evaluated as number %d of %r and %s as number %d of the same formulas in another order (each on its own new parser)'
                            % (fs[i], a[i], i + 1, fs, b[j], j + 1), observed=b[j], expected=a[i])


LAWS = [
    Law('history_independence', check_history, strategy=history_case, classes=hist_classes, quick=2400, thorough=150000, shards=(16, 16),
        required=('callback-aborted', 'nested-failure', 'syntax-error', 'error-literal', 'rebinding', 'other-parser-registration', 'raised-inside-handler', 'debug:True', 'debug:False'),
        nontrivial=lambda c: 'callback-aborted' in hist_classes(c) or len(c['history']) >= 3,
        rule='a long-lived parser with fixed bindings evaluates a generated history of 1-12 formulas (valid ones, lexical and syntax errors, run-time errors, error literals, callbacks that raise, callbacks whose own nested parse fails) interleaved with re-bindings of variables and cell values and with registrations made on a different parser object; '
             'after every step each of 1-3 probe formulas must give the outcome a fresh parser given the same (re)bindings and no other history gives; the other debug setting must give the same outcomes; non-trivial = a callback-aborted evaluation or at least 3 steps'),
    Law('long_history', check_long_history, strategy=st.fixed_dictionaries({'n': st.integers(20, 300), 'pattern': st.lists(st.integers(0, len(LONG_FAIL) - 1), min_size=1, max_size=4), 'debug': st.booleans()}),
        quick=70, thorough=2500, shards=(16, 16), weight=lambda c: c['n'], nontrivial=lambda c: c['n'] >= 65, classes=lambda c: ('n>=100',) if c['n'] >= 100 else ('n<100',), required=('n>=100',),
        rule='one parser evaluates 20-300 formulas repeating a pattern of 1-4 of 20 kinds, nearly all failing (unknown names, syntax and lexical errors, error literals, raising host functions and listeners, errors raised inside handlers, failing nested evaluations, error values); '
             'after every one of them a formula with a listener-served range must give its fixed value; non-trivial = at least 65 evaluations'),
    Law('no_host_mutation', check_mutation, strategy=mut_case(), quick=5000, thorough=100000, shards=(8, 16),
        nontrivial=lambda c: len(c['formulas']) >= 2,
        rule='1-4 of 75 formulas that push host lists (variable values flat and nested, a listener-served range and cell value, arguments handed to and a list returned by custom functions) through array arithmetic, array literals, omitted-slot calls, '
             'every aggregate, LARGE/MEDIAN/INDEX/MATCH/TEXTJOIN/CONCATENATE/SUMIFS...: afterwards every host list is deep-equal to its copy and consists of the very same list objects'),
    Law('process_environment', check_env, enumerate=enum_env, shards=(16, 16), guard=400, key=lambda c: 'process-environment',
        rule='56 formulas (dates and serials, text of dates, number formats, case mapping, text order, rounding, wildcard lookups, literals, failing formulas, host date and text variables) are evaluated in a brand-new interpreter '
             'under TZ=UTC and under each of 17 other process environments (four time zones given as POSIX rules and two by name, warnings turned into errors, POSIX / C.UTF-8 locale variables, other hash seeds, development mode, UTF-8 mode off and on, '
             'a low integer-digit limit, the debug allocator): every outcome is the same, and the library must be usable at all'),
    Law('order_independence', check_order, strategy=order_case, quick=170, thorough=12000, shards=(16, 16), key=lambda c: '', guard=400,
        classes=lambda c: ('debug:%s' % c['debug'], 'n%d' % min(len(c['formulas']), 4)), required=('debug:True', 'debug:False', 'n2', 'n4'),
        nontrivial=lambda c: len(c['formulas']) >= 3,
        rule='2-6 distinct formulas over values that are equal but of different kinds (TRUE/1/1.0/"1", 0/0.0/-0.0, 2^53 as int and float, a date and its serial, lists of them) under observers that tell the kinds apart (&"", TYPE, IS*, N, T, EXACT, MATCH, COUNTIF, TEXTJOIN) or as the argument of one of 58 one-argument calls, '
             'each on its own new parser, are evaluated in a brand-new interpreter process in one order and in a second brand-new interpreter in a shuffled order: every formula must give the same outcome in both (this reaches state kept at module level, which an oracle living in the same process would share); non-trivial = at least 3 formulas'),
    Law('no_retention', check_retention, strategy=st.fixed_dictionaries({'f': st.sampled_from(RETAIN), 'n': st.sampled_from([50, 200]), 'debug': st.booleans(), 'per_request': st.sampled_from([False, False, True])}), key=ret_key,
        quick=200, thorough=4000, shards=(16, 16), shrink=False,
        classes=lambda c: ('debug:%s' % c['debug'], 'n%d' % c['n'], 'parser-per-evaluation' if c.get('per_request') else 'one-parser'), required=('debug:True', 'debug:False', 'n50', 'n200', 'parser-per-evaluation'),
        rule='one of 32 formulas (mostly failing: lexical, syntax, run-time, raised by aggregates, raised by host callbacks, trapped by IFERROR) evaluated 5 times to warm up and then N = 50 or 200 more times, on one parser or (a third of the cases) each on a parser of its own that is dropped afterwards: '
             'growth of gc-tracked objects, of live traceback/frame objects < N/2, of allocated memory blocks (sys.getallocatedblocks; debug off only) < N, growth of the bytes reachable from the parser and the hotxlfp/ply modules < 4N, each in the smaller of two consecutive windows of N; with the cyclic collector switched off N evaluations leave fewer than N objects in reference cycles (none, on this tree), traceback chains of the nine shared error objects do not grow'),
]

LEVEL_TEXT = 'Hypothesis exploration of evaluation histories (model: a fresh parser with the same bindings, plus fixed facts), of evaluation order across brand-new interpreter processes (reaches module-level state that an in-process oracle would share), of host-list integrity by value and by object identity, and of object retention over repeated evaluations, for both debug settings.'
LEVEL_NOTE = 'Trusted: gc object counts and sys.getallocatedblocks as the retention measures (a leak smaller than one block per two evaluations, or one that reuses a growing buffer without new blocks, is not visible); host callbacks in the harness are pure.'
TECHNIQUE = 'stateful property testing of call histories against a fresh-instance oracle + order-permutation metamorphic test in fresh interpreters + identity/deep-equality invariants + gc-growth measurement'
