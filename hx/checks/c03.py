"""C03 - parser instances are isolated; evaluation is re-entrant and thread-independent."""
import sys
import datetime
import threading
import time

from hypothesis import strategies as st

from .. import gen_formula as gf
from .. import snapshot
from ..env import hot
from ..law import Law, Violation, Skip
from ..values import enc, same_outcome

RULE = 'C03: pairs of formulas with a complete evaluation (other parser or same parser, to depth 2) interposed at generated points of the outer one; harness-owned thread schedules at Python-line granularity; registration histories on one parser observed from another'
ASSUMPTIONS = ['interleavings are explored at the granularity of Python line events inside hotxlfp/ply under a harness-owned baton (exactly one thread runs at a time, so a schedule is a deterministic, replayable value); races inside a single statement or inside C code are not reachable this way',
               'the free-running stress law (thorough tier) reports only outcomes it actually observed wrong; it cannot be replayed deterministically']

# ---------------------------------------------------------------- parsers with distinguishable bindings

BIND = {
    'A': {'v_a': 4, 'v_s': 'sa', 'v_l': [1, 2, 3], 'v_d': datetime.datetime(2019, 11, 20, 6, 30)},
    'B': {'v_a': 40, 'v_s': 'sb', 'v_l': [10, 20, 30], 'v_d': datetime.datetime(2024, 2, 29)},
    'C': {'v_a': 400, 'v_s': 'sc', 'v_l': [100, 200], 'v_d': datetime.datetime(1999, 12, 31, 23, 59, 59)},
}
CELLBASE = {'A': 1, 'B': 1000, 'C': 100000}
HOOKS = [['call', 'H', None], ['cell', 'X9'], ['var', 'v_hook'], ['range', 'X1', 'Y2'], ['call', 'HOOKED', None]]


def build(which, hook, mode=0):
    """hook(kind, P) -> value is called at every interposition point of this parser.
    mode 0: the listener evaluates, then hands the value to the setter; mode 1: it hands a constant to the setter first and
    evaluates afterwards (an audit listener); mode 2: it evaluates and sets nothing (the registered / computed value stays)"""
    P = hot().Parser()

    def deliver(setter, kind, default_const):
        if mode == 0:
            setter(hook(kind, P))
        elif mode == 1:
            setter(default_const)
            hook(kind, P)
        else:
            hook(kind, P)
    for k, v in BIND[which].items():
        P.set_variable(k, list(v) if isinstance(v, list) else v)
    base = CELLBASE[which]
    P.set_function('ID', lambda x: x)
    P.set_function('H', lambda *a: hook('func', P))
    P.set_function('HOOKED', lambda *a: len(a))

    def cells(cell, setter):
        if cell.label == 'X9':
            deliver(setter, 'cell', 31)
        else:
            setter(base + cell.row.index * 10 + cell.col.index)

    def ranges(s, e, setter):
        if s.label == 'X1':
            deliver(setter, 'range', [32, 33])
        else:
            setter([base + s.row.index, base + e.row.index])

    def variables(name, setter):
        if name == 'v_hook':
            if mode == 2:
                setter(34)          # (an unregistered name needs some value)
                hook('var', P)
            else:
                deliver(setter, 'var', 34)

    def funcs(name, args, setter):
        if name == 'HOOKED':
            deliver(setter, 'funcevent', 35)
    P.on('callCellValue', cells)
    P.on('callRangeValue', ranges)
    P.on('callVariable', variables)
    P.on('callFunction', funcs)
    return P


plain_leaf = st.one_of(st.sampled_from(['1', '2', '3', '5', '10']).map(lambda s: ['num', s]), st.just(['dec', '0.5']), st.sampled_from(['v_a', 'v_s', 'v_l']).map(lambda n: ['var', n]),
                       st.sampled_from(['B2', 'C3', '$D$4']).map(lambda n: ['cell', n]), st.just(['range', 'A1', 'B2']), st.just(['str', 'q', '"']))
hook_leaf = st.sampled_from([['call', 'H', []], ['call', 'H', [['num', '1']]], ['cell', 'X9'], ['var', 'v_hook'], ['range', 'X1', 'Y2'], ['call', 'HOOKED', [['num', '7']]]])


def trees(with_hooks, max_leaves=7):
    leaves = st.one_of(plain_leaf, plain_leaf, hook_leaf) if with_hooks else plain_leaf

    def extend(ch):
        return st.one_of(
            st.tuples(st.just('bin'), st.sampled_from(gf.ARITH + gf.ARITH + gf.CMP + ['&']), ch, ch).map(list),
            st.tuples(st.just('neg'), ch).map(list),
            st.tuples(st.just('call'), st.sampled_from(['SUM', 'ID', 'CONCATENATE', 'IF', 'MAX', 'COUNT', 'IFERROR']), st.lists(ch, min_size=1, max_size=3)).map(list),
            st.tuples(st.just('arr'), st.lists(ch, min_size=1, max_size=3)).map(list),
            st.tuples(st.just('paren'), ch).map(list))
    return st.recursive(leaves, extend, max_leaves=max_leaves)


def is_hook(n):
    return (n[0] == 'call' and n[1] in ('H', 'HOOKED')) or (n[0] == 'cell' and n[1] == 'X9') or (n[0] == 'var' and n[1] == 'v_hook') or (n[0] == 'range' and n[1] == 'X1')


def count_hooks(t):
    return sum(1 for n in gf.walk(t) if is_hook(n))


inner_text = st.one_of(trees(False, 5).map(gf.render), st.sampled_from(['', '', ' ', '1+', 'SUM(1,', '1/0', 'nosuch', '#N/A', 'SQRT(-1)+1', 'LEFT(1,2,3,4)', 'v_s+1', '10-3-2', 'SUM(1,2,3)*4+B2', '"a"&"b"&v_s', '{1,2;3,4}', 'IF(1<2,v_a,0)']))


@st.composite
def nested_case(draw):
    fa = draw(trees(True))
    if count_hooks(fa) == 0:
        fa = ['bin', draw(st.sampled_from(['+', '*', '&', '='])), ['bin', '+', draw(plain_leaf), draw(hook_leaf)], draw(trees(False, 3))]
    depth2 = draw(st.booleans())
    fb = draw(inner_text)
    if depth2:
        fb = gf.render(['bin', '+', ['call', 'H', []], draw(trees(False, 3))]) if draw(st.booleans()) else 'ID(X9)&' + fb
    return {'fa': fa, 'fb': fb, 'fc': draw(inner_text), 'same': draw(st.booleans()), 'order': draw(st.sampled_from(['AB', 'BA'])), 'ret': draw(st.sampled_from(['const', 'inner', 'inner'])),
            'mode': draw(st.sampled_from([0, 0, 1, 2])), 'handler': draw(st.sampled_from([False, False, True]))}


def derive(ret, outcome):
    if ret == 'const':
        return 77
    v = outcome['result']
    return v if v is not None else -1


def check_nested(case):
    fa_text = gf.render(case['fa'])
    fb, fc = case['fb'], case['fc']
    inner_on_a = case['same']
    # --- solo outcomes, innermost first (callbacks return values without evaluating anything)
    mode = case.get('mode', 0)
    c_solo = build('A' if inner_on_a else 'C', lambda k, P: 0, mode).parse(fc)
    vc = derive(case['ret'], c_solo)
    b_solo = build('A' if inner_on_a else 'B', lambda k, P: vc, mode).parse(fb)
    vb = derive(case['ret'], b_solo)
    a_solo = build('A', lambda k, P: vb, mode).parse(fa_text)
    # --- nested run
    problems = []
    holder = {}
    depth = [0]

    def hook_c(kind, P):
        return 0

    def hook_b(kind, P):
        target = holder['A'] if inner_on_a else holder['C']
        depth[0] += 1
        try:
            if depth[0] > 2:
                return vc
            r = target.parse(fc)
        finally:
            depth[0] -= 1
        if not same_outcome(r, c_solo):
            problems.append('depth-2 evaluation of %r gave %r, alone it gives %r' % (fc, r, c_solo))
        return vc

    def hook_a(kind, P):
        if depth[0] >= 1:
            # A is re-entered (same-parser nesting): behave as the level we are at
            return hook_b(kind, P) if depth[0] == 1 else vc
        target = holder['A'] if inner_on_a else holder['B']
        depth[0] += 1
        try:
            if case.get('handler'):
                # the callback is busy handling a spreadsheet error of its own when it evaluates the other formula
                from ..env import errors as _errors
                try:
                    raise _errors().NOT_AVAILABLE
                except Exception:
                    r = target.parse(fb)
            else:
                r = target.parse(fb)
        finally:
            depth[0] -= 1
        if not same_outcome(r, b_solo):
            problems.append('interposed evaluation of %r (at a %s point) gave %r, alone it gives %r' % (fb, kind, r, b_solo))
        return vb
    if case['order'] == 'AB':
        holder['A'] = build('A', hook_a, mode)
        holder['B'] = build('B', hook_b, mode)
        holder['C'] = build('C', hook_c, mode)
    else:
        holder['C'] = build('C', hook_c, mode)
        holder['B'] = build('B', hook_b, mode)
        holder['A'] = build('A', hook_a, mode)
    r = holder['A'].parse(fa_text)
    d = 'outer %r on A, inner %r on %s, depth-2 %r (construction order %s): ' % (fa_text, fb, 'A itself' if inner_on_a else 'B', fc, case['order'])
    if problems:
        raise Violation(d + problems[0], None, None)
    if not same_outcome(r, a_solo):
        raise Violation(d + 'outer outcome %r, alone (callbacks returning the same values) it is %r' % (r, a_solo),
                        enc(r['result']) if r['error'] is None else r['error'], enc(a_solo['result']) if a_solo['error'] is None else a_solo['error'])


def nested_classes(case):
    out = ['same-parser' if case['same'] else 'other-parser', 'order:' + case['order'], 'listener-mode:%d' % case.get('mode', 0)] + (['inside-handler'] if case.get('handler') else [])
    toks = gf.tokens(case['fa'])
    hook_toks = [i for i, t in enumerate(toks) if t in ('X9', 'v_hook', 'X1:Y2') or t.startswith('H(') or t.startswith('HOOKED(')]
    if hook_toks and hook_toks[0] < len(toks) - 2:
        out.append('continues-after-hook')
    if hook_toks and hook_toks[0] == 0:
        out.append('hook-first')
    for n in gf.walk(case['fa']):
        if is_hook(n):
            out.append('hook:' + n[0])
    if 'H(' in case['fb'] or 'X9' in case['fb']:
        out.append('depth2')
    return sorted(set(out))


def nested_key(case):
    return 'nested-same-parser' if case['same'] else 'nested-other-parser'


# ---------------------------------------------------------------- threads under a harness-owned schedule

STALL_S = 8.0


class Baton(object):
    def __init__(self, quanta, nthreads=2):
        self.cv = threading.Condition()
        self.turn = 0
        self.quanta = list(quanta)
        self.qi = 0
        self.left = self._next()
        self.done = [False] * nthreads
        self.switches_in_parse = 0
        self.in_parse = [False] * nthreads
        self.ticks = [0] * nthreads
        self.stalled = None     # (thread that held the turn inside parse() without executing a line, thread that was suspended inside parse())

    def _next(self):
        if self.qi < len(self.quanta):
            q = self.quanta[self.qi]
            self.qi += 1
            return q
        return 10 ** 9

    def tick(self, me):
        self.ticks[me] += 1
        self.left -= 1
        if self.left <= 0:
            self.yield_turn(me)

    def yield_turn(self, me, finished=False):
        with self.cv:
            if finished:
                self.done[me] = True
            other = 1 - me
            if self.done[other]:
                self.left = self._next()
                if finished:
                    self.cv.notify_all()
                return
            if self.in_parse[me] and not finished:
                self.switches_in_parse += 1
            self.turn = other
            self.left = self._next()
            self.cv.notify_all()
            if finished:
                return
            seen, deadline = self.ticks[other], time.monotonic() + STALL_S
            while self.turn != me:
                self.cv.wait(1.0)
                if self.turn == me:
                    break
                if self.ticks[other] != seen:
                    seen, deadline = self.ticks[other], time.monotonic() + STALL_S
                elif time.monotonic() > deadline and self.in_parse[me] and self.in_parse[other] and not self.done[other]:
                    # the other thread holds the turn, is inside parse() on its own parser and has not executed one line of the library for STALL_S seconds
                    # while this thread is suspended inside parse(): it is blocked on this evaluation.  Take the turn back and run to the end.
                    self.stalled = (other, me)
                    self.quanta, self.left = [], 10 ** 9
                    self.turn = me
                    break

    def start(self, me):
        with self.cv:
            while self.turn != me:
                self.cv.wait(30)


def run_threads(formulas, quanta):
    """formulas: [list for thread 0, list for thread 1] -> outcomes per thread, switches that landed inside a parse"""
    snap = snapshot.directory()
    baton = Baton(quanta)
    out = [[], []]
    errs = []
    parsers = [build('A', lambda k, P: 5), build('B', lambda k, P: 6)]

    def body(me):
        def local(frame, event, arg):
            if event == 'line':
                baton.tick(me)
            return local

        def glob(frame, event, arg):
            fn = frame.f_code.co_filename
            if fn.startswith(snap) or '/ply/' in fn:
                return local
            return None
        try:
            baton.start(me)
            sys.settrace(glob)
            for f in formulas[me]:
                baton.in_parse[me] = True
                try:
                    r = parsers[me].parse(f)
                except Exception as e:
                    errs.append('PARSE:%s on %r: %s' % (type(e).__name__, f[:60], e))
                    raise
                baton.in_parse[me] = False
                out[me].append(r)
        except BaseException as e:        # noqa
            if not errs:
                errs.append(repr(e))
        finally:
            sys.settrace(None)
            baton.yield_turn(me, finished=True)
    ts = [threading.Thread(target=body, args=(i,)) for i in range(2)]
    for t in ts:
        t.start()
    for t in ts:
        t.join(60)
    if any(t.is_alive() for t in ts):
        raise RuntimeError('baton scheduler: a thread did not finish (harness error)')
    if errs:
        if errs[0].startswith('PARSE:'):
            raise Violation('an evaluation on its own parser, run in a thread other than the one that built the parser, raised instead of returning a record: %s (formulas %r)' % (errs[0][6:], formulas),
                            errs[0][6:], 'a result/error record')
        raise RuntimeError('baton scheduler: %s' % errs[0])
    if baton.stalled is not None:
        blocked, holder = baton.stalled
        raise Violation('under the schedule %r the evaluation on the parser of thread %d did not execute a single line for %d s while the evaluation on the other parser (thread %d) was suspended mid-way, '
                        'and went on once that one had finished: evaluations on different parsers in different threads are not independent (formulas %r)' % (quanta[:12], blocked, STALL_S, holder, formulas),
                        'blocked', 'proceeds')
    return out, baton.switches_in_parse


# an operand nested 650 levels deep: far beyond what the interpreter's default recursion limit allows the operators (about 490 levels), far below where C-level guards act (about 700).
# Alone it gives the same outcome on any stack; it tells when an interpreter-wide setting is changed under a running evaluation.
DEEP = '1+' + '{' * 650 + '1' + '}' * 650 + '+1'
thread_formula = st.one_of(trees(False, 6).map(gf.render), st.sampled_from(['SUM(1,2,3)*4+A1', '10-3-2', '"a"&"b"&"c"', 'IF(1<2,"x","y")', '{1,2;3,4}', '1+', 'nosuch+1', 'MAX(A1:B2)-MIN(A1:B2)', 'CONCATENATE(v_s,1,2)', 'v_a*v_a-1',
                                                                                     'ROUND(2.5,0)&ROUND(0.125,2)&ROUND(1250.0,-2)', 'ROUND(3.5,0)+ROUND(-2.5,0)', 'TEXT(2.5,"0")&UPPER("x")',
                                                                                     'YEAR(DATE(2019,11,20)+45)&(DATE(2019,11,20)>DATE(2019,1,1))', 'DATE(2020,2,29)-DATE(2019,2,28)', 'v_d+1>v_d', 'DAYS(v_d,DATE(2000,1,1))']))
_two_lists = st.tuples(st.lists(thread_formula, min_size=1, max_size=4), st.lists(thread_formula, min_size=1, max_size=4)).map(list)
# in a third of the cases both threads evaluate the same texts (each on its own parser, with its own bindings), the second thread from the other end: the same formula is in flight twice
_same_texts = st.lists(thread_formula, min_size=1, max_size=4).map(lambda l: [list(l), list(reversed(l))])
thread_case = st.fixed_dictionaries({'f': st.one_of(_two_lists, _two_lists, _same_texts),
                                     'quanta': st.lists(st.one_of(st.integers(1, 60), st.integers(1, 400)), min_size=1, max_size=60)})


def solo_outcomes(formulas):
    pa, pb = build('A', lambda k, P: 5), build('B', lambda k, P: 6)
    return [[pa.parse(f) for f in formulas[0]], [pb.parse(f) for f in formulas[1]]]


_SW = {}
_PAD = [0]


MINIMAL_STALL = {'f': [['1+1'], ['2+2']], 'quanta': [60]}


def check_threads(case):
    formulas, quanta = case['f'], case['quanta']
    if 'stall' in _SW:
        # this tree has already shown, in this process, that one evaluation blocks the other: no need to wait STALL_S again for every further example
        raise Violation(_SW['stall'], 'blocked', 'proceeds', case=MINIMAL_STALL)
    want = solo_outcomes(formulas)
    # the threads meet texts this process has not read before: each formula gets a run of trailing blanks of a length no earlier case used (white space changes
    # no outcome; a store keyed by formula text, filled by the solo runs or by earlier cases, would otherwise hide what happens when a text is first read by two threads at once)
    fresh = {}
    for f in formulas[0] + formulas[1]:
        if f not in fresh:
            _PAD[0] += 1
            fresh[f] = f + ' ' * _PAD[0]
    formulas_run = [[fresh[f] for f in formulas[0]], [fresh[f] for f in formulas[1]]]
    try:
        got, sw = run_threads(formulas_run, quanta)
    except Violation as v:
        if v.observed == 'blocked':
            try:
                run_threads(MINIMAL_STALL['f'], MINIMAL_STALL['quanta'])
            except Violation as v2:
                if v2.observed == 'blocked':
                    _SW['stall'] = v2.msg
                    raise Violation(v2.msg, 'blocked', 'proceeds', case=MINIMAL_STALL)
        raise
    for me in (0, 1):
        if len(got[me]) != len(want[me]):
            raise Violation('thread %d finished %d of %d evaluations' % (me, len(got[me]), len(want[me])), None, None)
        for f, g, w in zip(formulas[me], got[me], want[me]):
            if not same_outcome(g, w):
                raise Violation('thread %d (own parser) evaluated %r to %r under the schedule %r; alone it gives %r (other thread ran %r)' % (me, f, g, quanta[:12], w, formulas[1 - me]),
                                enc(g['result']) if g['error'] is None else g['error'], enc(w['result']) if w['error'] is None else w['error'])


def switches(case):
    try:
        return run_threads(case['f'], case['quanta'])[1]
    except Exception:
        return 0


# ---------------------------------------------------------------- an interpreter-wide setting changed under a running evaluation

def enum_deep(tier, shard, nshards):
    # enumerated, not Hypothesis-driven: Hypothesis raises the interpreter's recursion limit while it runs a test body, which would hide what DEEP observes
    shorts = ['1+1', 'SUM(1,2,3)*4+A1', '"a"&"b"', '1+', 'IF(1<2,"x","y")', '10-3-2']
    n = 3 if tier == 'quick' else 40
    for k in range(n):
        i = shard * n + k
        q0 = 5 + (i * 37) % 180              # thread 0 is suspended this many lines into its first evaluation
        q1 = 200 + (i * 911) % 9000          # thread 1 gets this far into the long formula before thread 0 runs to its end
        yield {'f': [[shorts[i % len(shorts)]] + ([shorts[(i // 2) % len(shorts)]] if i % 3 == 0 else []), [DEEP if i % 2 == 0 else '2*' + DEEP]], 'quanta': [q0, q1, 10 ** 7]}


def shallow(r):
    g = r['result']
    return (r['error'], type(g).__name__, len(g) if isinstance(g, list) else None)


def check_deep(case):
    formulas, quanta = case['f'], case['quanta']
    lim = sys.getrecursionlimit()
    want = solo_outcomes(formulas)
    got, sw = run_threads(formulas, quanta)
    for me in (0, 1):
        for f, g, w in zip(formulas[me], got[me], want[me]):
            if shallow(g) != shallow(w):
                raise Violation('thread %d (own parser) evaluated %s to %r under the schedule %r; alone it gives %r (the other thread ran %r); sys.getrecursionlimit() was %d before and is %d now'
                                % (me, f if len(f) < 60 else '%s...(%d characters: an operand nested 650 deep)' % (f[:12], len(f)), shallow(g), quanta, shallow(w), [x[:40] for x in formulas[1 - me]], lim, sys.getrecursionlimit()),
                                list(shallow(g)), list(shallow(w)))


# ---------------------------------------------------------------- the first evaluations of a process, made by several threads at once

COLD_FORMULAS = ['SUM(1,2)+LEN("ab")', 'IF(1<2,"x","y")&UPPER("q")', 'MAX({1,5,3})*ABS(-2)', 'ROUND(2.567,1)+DATE(2020,1,1)-DATE(2019,12,31)', 'CONCATENATE("a",1)&TEXTJOIN("-",TRUE,1,2)', 'ISNUMBER(1)', '1+', 'nosuch+1',
                 'ZZZ3+XFD2*2+AAA1', 'SUM(XFD1:ZZZ2)&"/"&zz9', 'AB12&MAX(B2:C3)']      # cells and ranges answered from the coordinates handed to the listener


def enum_cold(tier, shard, nshards):
    n = 2 if tier == 'quick' else 12
    for k in range(n):
        i = shard * n + k
        yield {'threads': 2 + i % 3, 'import_in_thread': i % 2 == 1, 'first': i % len(COLD_FORMULAS)}


def check_cold(case):
    import json
    import os
    import subprocess
    here = os.path.join(os.path.dirname(os.path.dirname(os.path.abspath(__file__))), 'cold_threads.py')
    k = case['first']
    formulas = COLD_FORMULAS[k:] + COLD_FORMULAS[:k]
    p = subprocess.run([sys.executable, here, snapshot.directory()], input=json.dumps({'formulas': formulas, 'threads': case['threads'], 'import_in_thread': case['import_in_thread']}),
                       capture_output=True, text=True, timeout=300, env=dict(os.environ, PYTHONHASHSEED='0', PYTHONDONTWRITEBYTECODE='1'))
    if p.returncode != 0:
        raise RuntimeError('cold-start child failed: %s' % p.stderr[-400:])
    res = json.loads(p.stdout)
    d = 'a brand-new interpreter, %d threads with a parser each making the first evaluations of the process together (library imported %s): ' % (case['threads'], 'by the threads' if case['import_in_thread'] else 'beforehand')
    if res['errors'] or any(res['alive']):
        raise Violation(d + 'a thread raised or did not finish: %r' % (res['errors'] or 'still running after 60 s',), res['errors'], [])
    for i, got in enumerate(res['threads']):
        for f, g, w in zip(formulas, got, res['solo']):
            if g != w:
                raise Violation(d + 'thread %d evaluated %r to %s; evaluated afterwards, alone, it gives %s' % (i, f, g, w), g, w)


# ---------------------------------------------------------------- free-running threads (thorough)

def enum_free(tier, shard, nshards):
    if tier == 'thorough':
        for k in range(6):
            yield [shard, k]


def check_free(case):
    import random
    shard, k = case
    rnd = random.Random(shard * 1000 + k)        # only picks formulas from a fixed list; outcomes do not depend on it
    base = ['SUM(1,2,3)*4+A1', '10-3-2', '"a"&"b"&"c"', 'IF(1<2,"x","y")', '{1,2;3,4}', '1+', 'nosuch+1', 'MAX(A1:B2)-MIN(A1:B2)', 'CONCATENATE(v_s,1,2)', 'v_a*v_a-1',
            'ID(B2)+C3*2', '-(1+2)*3', 'IFERROR(1/0,9)', 'SUM({1,2,3})/3', 'v_l*2']
    nthreads = 8
    lists = [[rnd.choice(base) for _ in range(200)] for _ in range(nthreads)]
    names = ['A', 'B', 'C', 'A', 'B', 'C', 'A', 'B']
    want = []
    for i in range(nthreads):
        P = build(names[i], lambda kk, PP: 5)
        want.append([P.parse(f) for f in lists[i]])
    old = sys.getswitchinterval()
    sys.setswitchinterval(1e-6)
    got = [None] * nthreads
    try:
        parsers = [build(names[i], lambda kk, PP: 5) for i in range(nthreads)]
        start = threading.Barrier(nthreads)

        def body(i):
            start.wait()
            got[i] = [parsers[i].parse(f) for f in lists[i]]
        ts = [threading.Thread(target=body, args=(i,)) for i in range(nthreads)]
        for t in ts:
            t.start()
        for t in ts:
            t.join(120)
    finally:
        sys.setswitchinterval(old)
    for i in range(nthreads):
        if got[i] is None:
            raise RuntimeError('free-running stress: thread %d did not finish' % i)
        for f, g, w in zip(lists[i], got[i], want[i]):
            if not same_outcome(g, w):
                raise Violation('free-running thread %d evaluated %r to %r, alone it gives %r (not deterministically replayable)' % (i, f, g, w), enc(g['result']) if g['error'] is None else g['error'], None)


# ---------------------------------------------------------------- evaluations on one parser must not change what another one sees

from ..ref import cells as rcells


def coord_value(base, label):
    ri, ci, ra, ca = rcells.parse_label(label)
    return base + ri * 10 + ci


ref_leaf = st.one_of(
    st.tuples(st.booleans(), st.sampled_from(['A', 'B', 'C', 'Z', 'AA', 'c', 'aa']), st.booleans(), st.integers(1, 12)).map(lambda t: ['cell', ('$' if t[0] else '') + t[1] + ('$' if t[2] else '') + str(t[3])]),
    st.tuples(st.sampled_from(['A1', 'C3', 'B2', 'C1', 'A3', '$C$3', 'a3', 'AA2']), st.sampled_from(['A1', 'C3', 'B2', 'C1', 'A3', 'C$3', 'c1', 'Z9'])).map(lambda t: ['range', t[0], t[1]]),
    st.sampled_from(['1', '2']).map(lambda x: ['num', x]))


def ref_trees():
    def extend(ch):
        return st.one_of(st.tuples(st.just('call'), st.sampled_from(['SUM', 'MAX', 'MIN']), st.lists(ch, min_size=1, max_size=3)).map(list),
                         st.tuples(st.just('bin'), st.sampled_from(['+', '-', '*']), ch, ch).map(list), st.tuples(st.just('paren'), ch).map(list))
    return st.recursive(ref_leaf, extend, max_leaves=5)


def ref_value(t, base):
    k = t[0]
    if k == 'num':
        return int(t[1])
    if k == 'cell':
        return coord_value(base, t[1])
    if k == 'range':
        a, b = rcells.parse_label(t[1]), rcells.parse_label(t[2])
        return [base + min(a[0], b[0]), base + max(a[0], b[0]), base * 2 + min(a[1], b[1]), base * 2 + max(a[1], b[1])]
    if k == 'paren':
        return ref_value(t[1], base)
    if k == 'call':
        items = []
        for a in t[2]:
            v = ref_value(a, base)
            items.extend(v if isinstance(v, list) else [v])
        return {'SUM': sum, 'MAX': max, 'MIN': min}[t[1]](items)
    l, r = ref_value(t[2], base), ref_value(t[3], base)
    if isinstance(l, list) or isinstance(r, list):
        raise Skip('array-arithmetic')
    return l + r if t[1] == '+' else (l - r if t[1] == '-' else l * r)


def coord_parser(base, seen):
    P = hot().Parser()

    def cells(cell, setter):
        seen.append((cell.label, cell.row.index, cell.col.index, cell.row.is_absolute, cell.col.is_absolute))
        setter(base + cell.row.index * 10 + cell.col.index)

    def ranges(s, e, setter):
        seen.append((s.label, s.row.index, s.col.index, s.row.is_absolute, s.col.is_absolute))
        seen.append((e.label, e.row.index, e.col.index, e.row.is_absolute, e.col.is_absolute))
        setter([base + s.row.index, base + e.row.index, base * 2 + s.col.index, base * 2 + e.col.index])
    P.on('callCellValue', cells)
    P.on('callRangeValue', ranges)
    return P


BLANK_TEXTS = ['{,,}', '{;;}', '{,,;,,}', '{,}', '{1,,}', '{,,2}']


def check_handed_out(A, B):
    """What an evaluation hands out belongs to whoever received it: the host of parser A changing such a value in place changes nothing for later evaluations, on B or on A."""
    import copy
    first = {}
    for text in BLANK_TEXTS:
        r = A.parse(text)
        first[text] = copy.deepcopy(r)
        v = r['result']
        if isinstance(v, list):
            for i in range(len(v)):
                if isinstance(v[i], list):
                    v[i][:] = [7]
                else:
                    v[i] = 7
            v.append('x')
    for who, P in (('B', B), ('A', A)):
        for text in BLANK_TEXTS:
            r = P.parse(text)
            if r != first[text]:
                raise Violation('parser A evaluated %r to %r and its host changed that value in place; afterwards parser %s evaluates %r to %r' % (text, first[text], who, text, r), enc(r['result']), enc(first[text]['result']))


def check_many_suspended(n=30):
    """n evaluations, each on a parser and a thread of its own, all suspended inside a custom function at the same moment: one more evaluation on a fresh parser is none of their business."""
    arrived, go = threading.Semaphore(0), threading.Event()
    out = [None] * n

    def work(k):
        P = hot().Parser()

        def wait():
            arrived.release()
            go.wait(30)
            return k
        P.set_function('WAITHERE', wait)
        try:
            out[k] = P.parse('WAITHERE()+1')
        finally:
            arrived.release()       # (an evaluation that ended without ever reaching the function must not keep the others waiting)
    ts = [threading.Thread(target=work, args=(k,)) for k in range(n)]
    for t in ts:
        t.daemon = True
        t.start()
    try:
        ok = all(arrived.acquire(timeout=30) for _ in range(n))
        if ok:
            Q = hot().Parser()
            Q.set_variable('v_x', 20)
            r = Q.parse('SUM(v_x,1,2)*2')
    finally:
        go.set()
        for t in ts:
            t.join(30)
    if not ok:
        return          # the threads did not all get there (machine load): nothing learnt
    if r != {'result': 46, 'error': None}:
        raise Violation('with %d evaluations suspended on %d other parsers in %d other threads, a fresh parser evaluates SUM(v_x,1,2)*2 (v_x = 20) to %r' % (n, n, n, r), r['error'] or enc(r['result']), 46)
    for k in range(n):
        if out[k] != {'result': k + 1, 'error': None}:
            raise Violation('%d evaluations suspended at once, each on its own parser and thread: number %d (WAITHERE()+1, the function returns %d) gives %r' % (n, k, k, out[k]), repr(out[k]), k + 1)


def check_cross_state(case):
    check_handed_out(hot().Parser(), hot().Parser())
    if len(case['steps']) % 3 == 2:
        check_many_suspended()
    seenA, seenB = [], []
    A = coord_parser(1000, seenA)
    B = coord_parser(500000, seenB)
    for i, step in enumerate(case['steps']):
        who, t = step
        text = gf.render(t)
        P, base, seen = (A, 1000, seenA) if who == 'A' else (B, 500000, seenB)
        del seen[:]
        r = P.parse(text)
        try:
            want = ref_value(t, base)
        except Skip:
            continue
        if r['error'] is not None or r['result'] != want:
            raise Violation('step %d: parser %s evaluates %r to %r after the evaluations %r; its listeners answer from the coordinates they are handed, the coordinates written in the formula give %r' % (
                i, who, text, r['error'] or r['result'], [(w, gf.render(x)) for w, x in case['steps'][:i]], want), r['error'] or enc(r['result']), enc(want))
        for lab, ri, ci, ra, ca in seen:
            p = rcells.parse_label(lab) if isinstance(lab, str) else None
            if p != (ri, ci, ra, ca):
                raise Violation('step %d: parser %s evaluating %r handed its listener the cell %r with row=%r col=%r markers=%r/%r (after %r)' % (i, who, text, lab, ri, ci, ra, ca, [(w, gf.render(x)) for w, x in case['steps'][:i]]), None, None)


cross_case = st.fixed_dictionaries({'steps': st.lists(st.tuples(st.sampled_from(['A', 'B']), ref_trees()).map(list), min_size=2, max_size=8)})


def cross_classes(c):
    out = set()
    for who, t in c['steps']:
        for n in gf.walk(t):
            if n[0] == 'range':
                a, b = rcells.parse_label(n[1]), rcells.parse_label(n[2])
                if a[0] > b[0] or a[1] > b[1]:
                    out.add('reversed-range')
            if n[0] == 'cell' and '$' in n[1]:
                out.add('absolute-cell')
    if len(set(w for w, t in c['steps'])) == 2:
        out.add('both-parsers')
    return sorted(out)


# ---------------------------------------------------------------- binding isolation

op_s = st.one_of(
    st.tuples(st.just('set_variable'), st.sampled_from(['v_only', 'v_a', 'TRUE', 'v_new', 'Q9', 'B2', 'A1']),        # (the last three: names spelled like cells)
    st.one_of(st.integers(0, 9), st.just('txt'), st.none())),
    st.tuples(st.just('set_function'), st.sampled_from(['ONLYA', 'SUM', 'ID', 'MY.FN']), st.integers(0, 9)),
    st.tuples(st.just('on'), st.sampled_from(['callCellValue', 'callRangeValue', 'callVariable', 'callFunction']), st.integers(0, 9)),
    st.tuples(st.just('once'), st.sampled_from(['callCellValue', 'callRangeValue', 'callVariable', 'callFunction']), st.integers(0, 9)),
    st.tuples(st.just('off'), st.sampled_from(['callCellValue', 'callRangeValue', 'callVariable', 'callFunction'])),
    st.tuples(st.just('parse'), st.sampled_from(['v_only+1', 'ONLYA(1)', 'B2', 'A1:B2', 'SUM(1,2)', 'TRUE', '1+', 'PI()', 'TRUE()+NA()', 'ONLYA()', 'v_a+1', 'v_a*2+SUM(1,2)', 'Q9+1'])),      # the last three: texts that fail on A (no v_a there) and succeed on B
    st.tuples(st.just('on_mutating'), st.sampled_from(['callFunction'])),
    st.tuples(st.just('parse_fresh'), st.integers(1, 10 ** 9)),
    st.tuples(st.just('host_error'), st.sampled_from(['#N/A', '#DIV/0!', '#VALUE!', '#NAME?']), st.sampled_from(['return', 'raise'])),
).map(list)
PROBES = ['v_only', 'v_new', 'v_a', 'TRUE', 'ONLYA(1)', 'MY.FN(1)', 'SUM(1,2)', 'ID(3)', 'B2', 'A1:B2', 'ISBLANK(B2)', 'v_only+ONLYA(2)', 'PI()>3', 'TRUE()', 'IF(TRUE(),1,2)',
          'NA()', '1/0', '"a"+1', 'IFERROR(NA(),5)', 'ERROR.TYPE(1/0)', 'v_a+1', 'v_a*2+SUM(1,2)']


PROBE_WANT = [(None, '#NAME?'), (None, '#NAME?'), (40, None), (True, None), (None, '#NAME?'), (None, '#NAME?'), (3, None), (None, '#NAME?'), (None, None), (None, None), (True, None), (None, '#NAME?'),
              (True, None), (True, None), (1, None), (None, '#N/A'), (None, '#DIV/0!'), (None, '#VALUE!'), (5, None), (2, None), (41, None), (83, None)]


def check_bindings(case):
    hot_ = hot()
    if case['order'] == 'B-first':
        B = hot_.Parser()
        A = hot_.Parser()
    else:
        A = hot_.Parser()
        B = hot_.Parser()
    B.set_variable('v_a', 40)
    B.on('callCellValue', lambda cell, setter: setter(777) if cell.label == 'Q9' else None)        # B's own listener: it answers Q9, whatever A subscribes or unsubscribes
    # what an untouched parser holding only v_a = 40 gives (fixed facts, so that state leaking through the process cannot taint the oracle)
    want = [{'result': w if e is None else None, 'error': e} for w, e in PROBE_WANT]
    for step, op in enumerate(case['ops']):
        if op[0] == 'set_variable':
            A.set_variable(op[1], op[2])
        elif op[0] == 'set_function':
            A.set_function(op[1], lambda *a, k=op[2]: 9000 + k)
        elif op[0] in ('on', 'once'):
            getattr(A, op[0])(op[1], lambda *args, k=op[2]: args[-1](7000 + k))
        elif op[0] == 'on_mutating':
            # a journalling listener that edits the argument list it is handed (its own business - but nobody else's)
            A.on(op[1], lambda name, args, setter: args.insert(0, name))
        elif op[0] == 'host_error':
            # a callback of A builds an error of its own with a canonical code and a detail for its log, and returns or raises it
            def herr(code=op[1], how=op[2]):
                e = hot_.formulas.error.XLError(code, 'no customer 17')
                if how == 'raise':
                    raise e
                return e
            A.set_function('HERR', herr)
            A.parse('HERR()')
            A.parse('IFERROR(HERR(),1)')
        elif op[0] == 'off':
            A.off(op[1])
        elif op[0] == 'parse_fresh':
            # a text no parser of this process has read before: it fails on A part-way (no v_a there, unless A has set one), then B reads the same text
            t = 'v_a*1+%d+SUM(1,2)' % op[1]
            A.parse(t)
            g = B.parse(t)
            if g != {'result': 43 + op[1], 'error': None}:
                raise Violation('after %r on parser A (the last step evaluated %r there), parser B evaluates the same text to %r instead of %d' % (case['ops'][:step + 1], t, g, 43 + op[1]), g['error'] or enc(g['result']), 43 + op[1])
        else:
            A.parse(op[1])
        for p, w in zip(PROBES, want):
            g = B.parse(p)
            if not same_outcome(g, w):
                raise Violation('after %r on parser A, parser B evaluates %r to %r instead of %r' % (case['ops'][:step + 1], p, g, w), enc(g['result']) if g['error'] is None else g['error'], enc(w['result']) if w['error'] is None else w['error'])
        gq = B.parse('Q9+1')
        if gq != {'result': 778, 'error': None}:
            raise Violation('after %r on parser A, parser B\'s own cell listener no longer answers: Q9+1 -> %r instead of 778' % (case['ops'][:step + 1], gq), gq['error'] or enc(gq['result']), 778)
        if set(B.variables.keys()) != set(['TRUE', 'FALSE', 'NULL', 'v_a']) or B.functions or any(B._e.get(k) for k in list(B._e.keys()) if k != 'callCellValue') or len(B._e.get('callCellValue', [])) != 1:
            raise Violation('after %r on parser A, parser B holds bindings: variables %r functions %r listeners %r' % (case['ops'][:step + 1], sorted(B.variables), sorted(B.functions), dict(B._e)), None, None)
        # B's own one-shot listener works as if A did not exist: it answers the next reference and only that one
        B.once('callVariable', lambda name, setter: setter(555))
        g1, g2 = B.parse('v_q'), B.parse('v_q')
        if g1 != {'result': 555, 'error': None} or g2 != {'result': None, 'error': '#NAME?'}:
            raise Violation('after %r on parser A, a once-listener subscribed on parser B answered two successive references v_q with %r and %r (expected 555, then #NAME?)' % (case['ops'][:step + 1], g1, g2), [enc(g1['result']), g2['error']], [555, '#NAME?'])
        if B.variables['TRUE'] is not True:
            raise Violation('after %r on parser A, B\'s TRUE is %r' % (case['ops'][:step + 1], B.variables['TRUE']), None, None)


LAWS = [
    Law('nested', check_nested, strategy=nested_case(), key=nested_key, classes=nested_classes, quick=3000, thorough=200000, shards=(16, 16),
        required=('same-parser', 'other-parser', 'inside-handler', 'order:AB', 'order:BA', 'continues-after-hook', 'hook-first', 'hook:call', 'hook:cell', 'hook:var', 'hook:range', 'depth2', 'listener-mode:1', 'listener-mode:2'),
        nontrivial=lambda c: 'continues-after-hook' in nested_classes(c) and len(c['fb']) >= 3,
        rule='outer formula on parser A with 1-3 interposition points (a custom function, or a listener on a cell / range / variable / function event) at generated structural positions; at each point a complete evaluation of a second formula runs on pre-built parser B '
             '(or on A itself), whose own callback evaluates a third formula (depth 2); both construction orders; listeners either evaluate and then answer, answer first and evaluate afterwards, or evaluate and answer nothing; oracle: every inner outcome equals that formula\'s solo outcome and A\'s outcome equals the solo run in which the callbacks return the same values without evaluating; '
             'non-trivial = the outer formula continues after the interposition point and the inner formula has at least 3 characters'),
    Law('threads_baton', check_threads, strategy=thread_case, quick=1500, thorough=60000, shards=(16, 16),
        classes=lambda c: (('switch-inside-parse' if switches(c) >= 2 else 'few-switches'),), required=('switch-inside-parse',),
        nontrivial=lambda c: switches(c) >= 2, key=lambda c: 'thread-interleaving',
        rule='two threads, each with its own parser and 1-4 formulas, run under per-thread line tracing; a generated list of 1-60 quanta (1-400 line events) decides when the baton passes, so exactly one thread runs at a time and the interleaving is a replayable value; '
             'every outcome must equal the solo outcome; non-trivial = at least two switches landing inside an evaluation'),
    Law('threads_deep_operand', check_deep, enumerate=enum_deep, shards=(16, 16), key=lambda c: 'thread-interleaving',
        rule='thread 0 evaluates 1-2 short formulas, thread 1 one formula with an operand nested 650 levels deep (beyond what the default recursion limit lets the operators handle, so that alone it gives one and the same outcome on any stack); '
             'the baton suspends thread 0 inside its first evaluation, lets thread 1 get 200-9200 lines into the long one, then lets thread 0 finish: every formula must give the outcome (error code / kind and length of the result) it gives alone; 48 schedules in quick, 640 in thorough'),
    Law('cold_start_threads', check_cold, enumerate=enum_cold, shards=(16, 16), key=lambda c: 'thread-interleaving', guard=400,
        rule='a brand-new interpreter process in which 2-4 threads, each with its own parser, make the very first evaluations of the process at the same moment (the library imported beforehand or by the threads themselves): '
             'each of 11 formulas (three of them over listener-served cells and ranges) must give every thread the outcome it gives afterwards, alone; 32 processes in quick, 192 in thorough (whatever is initialised lazily, once per process, is initialised here under contention)'),
    Law('threads_free', check_free, enumerate=enum_free, shards=(1, 4), key=lambda c: 'thread-interleaving',
        rule='thorough only: 8 free-running threads x distinct parsers x 200 formulas with a 1 microsecond switch interval; every outcome equals the solo outcome'),
    Law('cross_parser_state', check_cross_state, strategy=cross_case, classes=cross_classes, required=('reversed-range', 'absolute-cell', 'both-parsers'), quick=1500, thorough=60000, shards=(8, 16),
        nontrivial=lambda c: 'both-parsers' in cross_classes(c), key=lambda c: 'cross-parser-state',
        rule='(each case first: six blank-slot array literals evaluated on a parser A, the values changed in place by the host, then evaluated on B and on A again; one case in three: 30 evaluations suspended at once on 30 parsers in 30 threads while a fresh parser evaluates) 2-8 evaluations alternating between two parsers whose listeners answer purely from the coordinates they are handed (formulas over cells with every marker pattern and ranges in all corner orders, SUM/MAX/MIN, + - *): '
             'every outcome equals the value computed from the coordinates *written in the formula* by the reference label parser, and every cell handed to a listener has a label that re-parses to its own coordinates - an oracle that shares no state with the library'),
    Law('binding_isolation', check_bindings, strategy=st.fixed_dictionaries({'ops': st.lists(op_s, min_size=1, max_size=10), 'order': st.sampled_from(['A-first', 'B-first'])}),
        quick=1500, thorough=60000, shards=(8, 16), nontrivial=lambda c: len(c['ops']) >= 2,
        rule='1-10 registrations on parser A (set_variable incl. TRUE, set_function incl. SUM, on/once/off for the four events, evaluations, a callback that builds an error object of its own): after each, parser B gives the outcomes of an untouched parser for 22 probe formulas and holds none of A\'s variables, functions or listeners'),
]

LEVEL_TEXT = 'Hypothesis exploration of re-entrant evaluation (generated interposition points, depth 2, both parsers / same parser, both construction orders) and of thread interleavings under a harness-owned, replayable schedule at Python-line granularity, with solo evaluation as the oracle (a blocked evaluation is told from a slow one and reported); an enumerated law with an operand near the recursion limit of the interpreter; brand-new interpreter processes whose first evaluations are made by several threads at once; free-running thread stress in the thorough tier.'
LEVEL_NOTE = 'Trusted: sys.settrace-based baton scheduler (one thread runs at a time). Not every interleaving is explored; races inside one Python statement or C code are out of reach.'
TECHNIQUE = 'property-based testing with generated interposition points and harness-owned thread schedules (deterministic interleaving exploration), solo-run oracle'
