"""C04 - precedence, associativity and parentheses determine expression structure."""
import math

from hypothesis import strategies as st

from .. import gen_formula as gf
from ..env import Env
from ..law import Law, Violation, Skip
from ..ref.arith import Err, Unspecified
from ..values import enc

RULE = 'C04: expression trees over integer/decimal literals, variables, cells, calls (SUM, ABS, custom ID), unary minus, + - * /, one comparison per parenthesis-free region, & chains'
ASSUMPTIONS = ['how & ranks against + and * is not stated: & operands are atoms, negated atoms, calls or parenthesised expressions',
               'a zero divisor under a comparison or & is C08\'s subject: such cases are excluded and counted',
               'reference = native evaluation of the generating tree (Python int/float operators in tree order, so results are bit-identical)']

from ..values import SubInt, SubFloat
VARS = {'v_a': 3, 'v_b': 7, 'v_c': 0.5, 'v_d': 12, 'v_e': 2.25, 'v_f': 1, 'v_one': 1, 'v_zero': 0, 'v_txt': 'xyz',
        'V_A': 1000, 'V_b': 70, 'v_g': SubInt(5), 'v_h': SubFloat(0.75)}        # names that differ from another in the case of a letter only are other names; v_g, v_h: host numbers of classes derived from int / float
CELLS = {'B2': 5, 'C3': 11, 'D4': 0.25, 'AA10': 4}
def _strict(f):
    def g(*a):
        for x in a:
            if isinstance(x, Err):
                return x
        return f(*a)
    return g


FUNCS = {'SUM': _strict(lambda *a: sum(a)), 'ABS': _strict(lambda x: abs(x)), 'ID': lambda x: x, 'EV': lambda t: EV_TEXTS[t]}

int_leaf = st.one_of(st.sampled_from(['2', '3', '5', '7', '11', '13', '17', '19', '23', '1', '4', '6', '8', '9', '10', '100']).map(lambda s: ['num', s]),
                     st.sampled_from(['9007199254740993', '9007199254740992', '12345678901234567891', '12345678901234567890', '007', '18014398509481985']).map(lambda s: ['num', s]),
                     st.sampled_from(['v_a', 'v_b', 'v_d', 'v_f', 'V_A', 'V_b', 'v_g']).map(lambda n: ['var', n]),
                     st.sampled_from(['B2', 'C3', 'AA10', '$B$2', 'c3']).map(lambda n: ['cell', n]))
leaf = st.one_of(int_leaf, int_leaf,
                 st.sampled_from(['0.5', '0.25', '0.75', '1.5', '2.25', '0.125', '.5', '10.0', '.05', '.007', '.0625', '1.05', '0.0078125', '.50']).map(lambda s: ['dec', s]),
                 st.sampled_from(['v_c', 'v_e', 'v_h']).map(lambda n: ['var', n]), st.just(['cell', 'D4']))

EV_TEXTS = {'1+1': 2, '2*3': 6, '10-3-2': 5, '7': 7, '(1+2)*3': 9, '8/2/2': 2.0, '-3*2': -6}
ev_leaf = st.sampled_from(sorted(EV_TEXTS)).map(lambda t: ['call', 'EV', [['str', t, '"']]])      # a custom function that evaluates its text argument on the same parser
leaf = st.one_of(leaf, leaf, leaf, ev_leaf)
arith_tree = gf.tree_strategy(leaf, calls=[('SUM', (1, 3)), ('ABS', (1, 1)), ('ID', (1, 1))], max_leaves=10)
int_tree = gf.tree_strategy(int_leaf, calls=[('ID', (1, 1))], ops=['+', '-', '*'], max_leaves=4)

blank_leaf = st.sampled_from([['cell', 'E5'], ['var', 'NULL'], ['cell', '$E$5']])        # nothing answers E5: a blank, which & joins as nothing and which equals ""
amp_operand = st.one_of(int_leaf, int_leaf, int_leaf.map(lambda l: ['neg', l]), int_tree.map(lambda t: ['paren', t]), int_tree.map(lambda t: ['call', 'ID', [t]]), blank_leaf, blank_leaf.map(lambda l: ['call', 'ID', [l]]),
                        st.just(['str', '', '"']), st.sampled_from([['str', 'top\nbottom', '"'], ['str', 'a\\b', '"'], ['str', 'q\\x\tz', '"'], ['str', '\\N{1}', "'"]]))     # text is taken as written: a line break, a tab or a backslash inside it means itself


def amp_chain():
    return st.lists(amp_operand, min_size=2, max_size=4).map(lambda xs: _chain(xs))


def _chain(xs):
    t = xs[0]
    for x in xs[1:]:
        t = ['bin', '&', t, x]
    return t


@st.composite
def top_tree(draw):
    kind = draw(st.sampled_from(['arith', 'arith', 'cmp', 'amp', 'ampcmp', 'callcmp', 'cmpcmp', 'cmpchain', 'blankcmp', 'texterr', 'emptytext', 'huge', 'negerr']))
    if kind == 'arith':
        t = draw(arith_tree)
        if draw(st.booleans()):
            # make sure several operators of different levels meet without parentheses
            a, b = draw(arith_tree), draw(arith_tree)
            o1, o2 = draw(st.sampled_from(gf.ARITH)), draw(st.sampled_from(gf.ARITH))
            t = ['bin', o1, ['bin', o2, t, a], b] if draw(st.booleans()) else ['bin', o1, t, ['bin', o2, a, b]]
            if draw(st.booleans()):
                t = ['bin', draw(st.sampled_from(gf.ARITH)), ['neg', t[2]], t[3]] if draw(st.booleans()) else ['bin', t[1], t[2], ['neg', t[3]]]
    elif kind == 'cmp':
        t = ['bin', draw(st.sampled_from(gf.CMP)), draw(arith_tree), draw(arith_tree)]
    elif kind == 'amp':
        t = draw(amp_chain())
    elif kind == 'ampcmp':
        t = ['bin', draw(st.sampled_from(gf.CMP)), draw(amp_chain()), draw(st.one_of(amp_chain(), amp_operand))]
    elif kind == 'blankcmp':
        # a blank (an unanswered cell, NULL) compared with numbers of either sign: it counts as 0 on whichever side it stands
        num = draw(st.one_of(int_leaf, int_leaf.map(lambda l: ['neg', l]), st.sampled_from([['num', '0'], ['neg', ['num', '1']], ['neg', ['dec', '0.5']], ['bin', '-', ['num', '1'], ['num', '3']]])))
        b = draw(blank_leaf)
        op = draw(st.sampled_from(gf.CMP))
        t = ['bin', op, b, num] if draw(st.booleans()) else ['bin', op, num, b]
        if draw(st.booleans()):
            t = ['bin', '&', ['paren', t], ['str', 'x', '"']]
    elif kind == 'texterr':
        # text that is no number on one side of an arithmetic operator, an error value on the other: the error is the value
        txt = draw(st.sampled_from([['paren', ['bin', '&', ['str', 'a', '"'], ['str', 'b', '"']]], ['str', 'abc', '"'], ['var', 'v_txt']]))
        e = ['paren', ['bin', '/', draw(int_leaf), ['bin', '-', ['num', '2'], ['num', '2']]]]
        op = draw(st.sampled_from(gf.ARITH))
        t = ['bin', op, txt, e] if draw(st.booleans()) else ['bin', op, e, txt]
        if draw(st.booleans()):
            t = ['bin', draw(st.sampled_from(gf.ARITH)), t, draw(int_leaf)]
    elif kind == 'emptytext':
        # blanks joined by & make the empty text, which is no number: under + - * / (as the divisor too) the value is #VALUE!
        nothing = st.one_of(blank_leaf, blank_leaf.map(lambda l: ['call', 'ID', [l]]), st.just(['str', '', '"']))
        e = ['paren', _chain(draw(st.lists(nothing, min_size=2, max_size=3)))]
        op = draw(st.sampled_from(['/', '/', '*', '+', '-']))
        t = ['bin', op, draw(int_leaf), e]
        if draw(st.booleans()):
            t = ['bin', draw(st.sampled_from(gf.ARITH)), draw(int_leaf), t] if draw(st.booleans()) else ['bin', draw(st.sampled_from(gf.ARITH)), t, draw(int_leaf)]
    elif kind == 'huge':
        # integers beyond the double range are exact integers; where one meets a decimal, or a quotient does not fit, the tree has no value (and no zero divisor)
        big = ['num', draw(st.sampled_from(['1' + '0' * 400, '7' * 401, '9' * 402]))]
        other = draw(st.one_of(int_leaf, st.sampled_from([['dec', '0.5'], ['dec', '1.5'], ['num', '3'], ['num', '1'], big])))
        op = draw(st.sampled_from(gf.ARITH))
        t = ['bin', op, big, other] if draw(st.booleans()) else ['bin', op, other, big]
        if draw(st.booleans()):
            t = ['bin', draw(st.sampled_from(gf.ARITH)), t, draw(st.sampled_from([['dec', '0.5'], ['num', '2'], big]))]
    elif kind == 'negerr':
        # unary minus over an operand whose value is an error (a zero divisor, text under arithmetic): the error is the value, as under the binary operators
        e = draw(st.sampled_from([['paren', ['bin', '/', ['num', '1'], ['num', '0']]], ['paren', ['bin', '/', ['num', '4'], ['bin', '-', ['num', '2'], ['num', '2']]]],
                                  ['paren', ['bin', '+', ['str', 'x', '"'], ['num', '1']]], ['call', 'ID', [['bin', '/', ['var', 'v_a'], ['var', 'v_zero']]]]]))
        t = ['neg', e]
        if draw(st.booleans()):
            t = ['neg', ['paren', t]] if draw(st.booleans()) else ['bin', draw(st.sampled_from(gf.ARITH)), draw(int_leaf), t]
        if draw(st.booleans()):
            t = ['bin', draw(st.sampled_from(gf.ARITH)), t, draw(int_leaf)]
    elif kind == 'cmpchain':
        # a chain of comparisons of one rank, written without parentheses: it reads from the left
        small = st.sampled_from([['num', '0'], ['num', '1'], ['num', '2'], ['dec', '1.0'], ['var', 'v_one'], ['var', 'v_zero'], ['cell', 'B2']])
        row = draw(st.sampled_from([['='], ['<=', '>=', '<>'], ['<', '>']]))
        t = ['bin', draw(st.sampled_from(row)), draw(small), draw(small)]
        for _ in range(draw(st.integers(1, 3))):
            t = ['bin', draw(st.sampled_from(row)), t, draw(small)]
    elif kind == 'cmpcmp':
        # a parenthesised comparison (a logical) compared with a small number, next to the same comparison between the numbers themselves
        small = st.sampled_from([['num', '0'], ['num', '1'], ['num', '2'], ['dec', '1.0'], ['dec', '0.0'], ['var', 'v_one'], ['var', 'v_zero']])
        a, b, c = draw(small), draw(small), draw(small)
        op1, op2 = draw(st.sampled_from(gf.CMP)), draw(st.sampled_from(gf.CMP))
        inner = ['paren', ['bin', op1, a, b]]
        t = ['bin', op2, inner, c] if draw(st.booleans()) else ['bin', op2, c, inner]
        if draw(st.booleans()):
            t = ['arr', [t, ['bin', op2, draw(small), c]]]
    else:
        inner = ['bin', draw(st.sampled_from(gf.CMP)), draw(arith_tree), draw(arith_tree)]
        t = ['call', 'ID', [inner]]
    nodes = gf.size(t)
    picks = draw(st.lists(st.integers(0, 3).map(lambda v: 1 if v == 0 else 0), min_size=nodes, max_size=nodes))
    return {'tree': t, 'picks': picks}


def env_ref():
    return {'vars': dict(VARS), 'cells': dict(CELLS), 'funcs': FUNCS}


def has_cmp_or_amp(t):
    return any(n[0] == 'bin' and (n[1] in gf.CMP or n[1] == '&') for n in gf.walk(t))


def contains_err(v):
    return isinstance(v, Err)


def regroupings(t):
    """alternative readings of the minimal rendering: re-associate each unparenthesised binary/unary child"""
    out = []

    def rebuild(path_fn):
        return path_fn

    def go(n, put):
        k = n[0]
        if k == 'bin':
            op, l, r = n[1], n[2], n[3]
            p = gf.prec(n)
            if op != '&':
                if l[0] == 'bin' and l[1] != '&' and not (gf.prec(l) < p or (p == 1 and gf.prec(l) == 1 and gf.CMP_ROW[l[1]] != gf.CMP_ROW[op])):
                    out.append(put(['bin', l[1], l[2], ['bin', op, l[3], r]]))
                if r[0] == 'bin' and r[1] != '&' and not (gf.prec(r) <= p):
                    out.append(put(['bin', r[1], ['bin', op, l, r[2]], r[3]]))
                if l[0] == 'neg' and l[1][0] != 'bin':
                    out.append(put(['neg', ['bin', op, l[1], r]]))
            else:
                if l[0] == 'bin' and l[1] == '&':
                    out.append(put(['bin', '&', l[2], ['bin', '&', l[3], r]]))
            go(l, lambda x: put(['bin', op, x, r]))
            go(r, lambda x: put(['bin', op, l, x]))
        elif k == 'neg':
            go(n[1], lambda x: put(['neg', x]))
        elif k == 'paren':
            go(n[1], lambda x: put(['paren', x]))
        elif k == 'call':
            for i, a in enumerate(n[2]):
                go(a, lambda x, i=i: put(['call', n[1], n[2][:i] + [x] + n[2][i + 1:]]))
    go(t, lambda x: x)
    return out


def same(a, b):
    if isinstance(a, Err) or isinstance(b, Err):
        return isinstance(a, Err) and isinstance(b, Err) and a.code == b.code
    if type(a) != type(b):
        return False
    if isinstance(a, float) and math.isnan(a):
        return isinstance(b, float) and math.isnan(b)
    return a == b


def sensitive(t, want):
    for alt in regroupings(t):
        try:
            v = gf.ref_eval(alt, env_ref())
        except (Unspecified, OverflowError, ZeroDivisionError):
            return True
        if not same(v, want):
            return True
    return False


def check(case):
    t = case['tree']
    try:
        want = gf.ref_eval(t, env_ref())
    except Unspecified:
        raise Skip('reference-unspecified')
    except OverflowError:
        return check_overflow(case)
    if has_cmp_or_amp(t):
        # an error operand of a comparison or of & is C08's subject (an & or a comparison inside an operand that ends in an error is not)
        for n in gf.walk(t):
            if n[0] == 'bin' and (n[1] in gf.CMP or n[1] == '&'):
                for side in (n[2], n[3]):
                    try:
                        if isinstance(gf.ref_eval(side, env_ref()), Err):
                            raise Skip('zero-divisor-under-comparison')
                    except Unspecified:
                        raise Skip('reference-unspecified')
    env = Env(vars=VARS, cells=CELLS, funcs={'ID': lambda x: x})
    env.P.set_function('EV', lambda text: env.P.parse(text)['result'])
    texts = [('minimal', gf.render(t, 'min')), ('full', gf.render(t, 'full')), ('redundant', gf.render(gf.add_redundant(t, case['picks']), 'min'))]
    for name, text in texts:
        r = env.parse(text)
        if isinstance(want, Err):
            if r['error'] != want.code:
                raise Violation('%s rendering %s -> %r, tree value is %s' % (name, text, r['error'] or r['result'], want.code), r['error'] or enc(r['result']), want.code)
            continue
        g = r['result']
        if r['error'] is not None or not same(g, want):
            raise Violation('%s rendering %s -> %r, tree value is %r' % (name, text, r['error'] or g, want), r['error'] or enc(g), enc(want))


def check_overflow(case):
    """A step of the tree does not fit a double (a 401-digit integer meeting a decimal, a quotient beyond 1.8e308): the tree has no value.  Whatever the
    renderings give, they give the same, and they do not blame a zero divisor when the tree has none."""
    t = case['tree']
    for n in gf.walk(t):
        if n[0] == 'bin' and n[1] == '/':
            try:
                d = gf.ref_eval(n[3], env_ref())
            except Exception:
                raise Skip('overflow')
            if isinstance(d, Err) or d == 0:
                raise Skip('overflow')
    if has_cmp_or_amp(t):
        raise Skip('overflow')
    env = Env(vars=VARS, cells=CELLS, funcs={'ID': lambda x: x})
    env.P.set_function('EV', lambda text: env.P.parse(text)['result'])
    texts = [('minimal', gf.render(t, 'min')), ('full', gf.render(t, 'full')), ('redundant', gf.render(gf.add_redundant(t, case['picks']), 'min'))]
    outs = []
    for name, text in texts:
        r = env.parse(text)
        if r['error'] == '#DIV/0!':
            raise Violation('%s rendering %s... -> #DIV/0!, but no divisor in the tree is zero (a step of the tree overflows the double range)' % (name, text[:60]), '#DIV/0!', 'not #DIV/0!')
        outs.append((r['error'], type(r['result']).__name__))
    if len(set(outs)) != 1:
        raise Violation('the renderings of a tree with an overflowing step disagree: %r' % (list(zip([n for n, _ in texts], outs)),), repr(outs), None)


def structure(t):
    bins = [n for n in gf.walk(t) if n[0] == 'bin']
    levels = set(gf.prec(n) if n[1] != '&' else 5 for n in bins)
    out = []
    if len(levels) >= 2:
        out.append('mixed-levels')
    if any(n[3][0] == 'bin' and gf.prec(n[3]) == gf.prec(n) for n in bins):
        out.append('right-compound-same-level')
    if any(n[0] == 'bin' and (n[2][0] == 'neg' or n[3][0] == 'neg') for n in bins):
        out.append('neg-under-binary')
    if any(n[1] in gf.CMP for n in bins):
        out.append('comparison')
    if any(n[1] == '&' for n in bins):
        out.append('amp')
    if any(n[0] == 'call' for n in gf.walk(t)):
        out.append('call')
    if sum(1 for n in gf.walk(t) if n[0] == 'call' and n[1] == 'EV') >= 2:
        out.append('two-nested-evaluations')
    if any(n[1] in gf.ARITH and any(c[0] == 'paren' and c[1][0] == 'bin' and c[1][1] == '&' for c in (n[2], n[3])) for n in bins):
        out.append('joined-text-under-arithmetic')
    if any(n[0] == 'str' and any(ch in n[1] for ch in '\n\t\\') for n in gf.walk(t)):
        out.append('text-with-line-break-or-backslash')
    return out


def nontrivial(case):
    t = case['tree']
    s = structure(t)
    if not ('mixed-levels' in s or 'right-compound-same-level' in s or 'neg-under-binary' in s):
        return False
    try:
        want = gf.ref_eval(t, env_ref())
    except Exception:
        return False
    return sensitive(t, want)


def classes(case):
    out = structure(case['tree'])
    for n in gf.walk(case['tree']):
        if n[0] == 'neg':
            try:
                if isinstance(gf.ref_eval(n[1], env_ref()), Err):
                    out.append('minus-over-error-value')
                    break
            except Exception:
                pass
    if nontrivial(case):
        out.append('grouping-sensitive')
    return out


def check_depth(case):
    t = case['tree']
    try:
        want = gf.ref_eval(t, env_ref())
    except (Unspecified, OverflowError):
        raise Skip('reference-unspecified')
    if isinstance(want, Err):
        raise Skip('zero-divisor')
    env = Env(vars=VARS, cells=CELLS, funcs={'ID': lambda x: x})
    env.P.set_function('EV', lambda text: env.P.parse(text)['result'])
    n = case['wrap']
    inner = gf.render(t, 'min')
    texts = [('%d redundant pairs around the whole formula' % n, '(' * n + inner + ')' * n)]
    # a right-nested chain: a op (b op (c op (...))) of depth k
    k = case['chain']
    ops = case['ops']
    chain = str(k + 1)
    val = k + 1
    for i in range(k, 0, -1):
        op = ops[i % len(ops)]
        chain = '%d%s(%s)' % (i, op, chain)
        val = i + val if op == '+' else (i - val if op == '-' else i * val)
    texts.append(('right-nested chain of depth %d' % k, chain))
    wants = [want, val]
    for (name, text), w in zip(texts, wants):
        r = env.parse(text)
        if r['error'] is not None or not same(r['result'], w):
            raise Violation('%s: %s... -> %r, expected %r' % (name, text[:80], r['error'] or r['result'], w), r['error'] or enc(r['result']), enc(w))
    # and afterwards ordinary parentheses still work on the same and on a fresh parser
    for P in (env, Env(vars=VARS)):
        r = P.parse('(1+2)*3')
        if r['error'] is not None or r['result'] != 9:
            raise Violation('(1+2)*3 -> %r after evaluating deeply nested formulas' % (r['error'] or r['result'],), r['error'] or enc(r['result']), 9)


def check_after_failures(case):
    # parentheses keep working whatever failed before: evaluations abandoned inside open parentheses, unknown names, stray characters
    P = Env(vars=VARS, cells=CELLS, funcs={'ID': lambda x: x})
    for f in case['fail']:
        P.parse(f)
    for text, w in (('(1+2)*3', 9), ('((2))*((3))', 6), ('-(v_a+v_b)*(2-(1-4))', -50), ('ID((1+(2*(3+(4)))))', 15)):
        for X in (P, Env(vars=VARS, funcs={'ID': lambda x: x})):
            r = X.parse(text)
            if r['error'] is not None or r['result'] != w:
                raise Violation('%s -> %r after the failed evaluations %r' % (text, r['error'] or r['result'], case['fail'][:6]), r['error'] or enc(r['result']), w)


FAILING = ['((((nosuch', '((1+', '(((NOSUCH(1)))', '((((((~', '(1+(2*(3+', '((((1)))', '(((((((((("', 'SUM(((1,', '((1)+(2))+((', '(' * 30 + 'x_y']

LAWS = [
    Law('nesting_depth', check_depth, quick=400, thorough=20000, shards=(8, 16),
        strategy=st.fixed_dictionaries({'tree': arith_tree, 'wrap': st.one_of(st.integers(1, 120), st.sampled_from([63, 64, 65, 100, 127, 128, 129, 200])), 'chain': st.integers(1, 150), 'ops': st.lists(st.sampled_from(['+', '-', '*', '-']), min_size=1, max_size=4)}),
        nontrivial=lambda c: c['wrap'] >= 20 or c['chain'] >= 20, classes=lambda c: (('deep>=65' if c['wrap'] >= 65 or c['chain'] >= 65 else 'shallow'),), required=('deep>=65',),
        rule='a generated tree wrapped in 1-200 redundant pairs of parentheses, and a right-nested chain a op (b op (c op ...)) of depth 1-150: value unchanged / equal to the native evaluation ("of any shape and depth"), and ordinary parenthesised formulas still evaluate afterwards'),
    Law('after_failures', check_after_failures, quick=200, thorough=5000, shards=(4, 8),
        strategy=st.fixed_dictionaries({'fail': st.lists(st.sampled_from(FAILING), min_size=1, max_size=60)}), nontrivial=lambda c: len(c['fail']) >= 10,
        rule='1-60 evaluations that fail inside open parentheses (unknown names, truncated formulas, stray characters), then four parenthesised formulas on the same and on a fresh parser: values unchanged'),
    Law('tree_value', check, strategy=top_tree(), classes=classes, nontrivial=nontrivial, quick=12000, thorough=300000, shards=(16, 16),
        required=('mixed-levels', 'right-compound-same-level', 'neg-under-binary', 'comparison', 'amp', 'call', 'grouping-sensitive', 'two-nested-evaluations', 'joined-text-under-arithmetic', 'text-with-line-break-or-backslash', 'minus-over-error-value'),
        rule='tree rendered three ways (minimal parentheses per the stated precedence, every sub-expression parenthesised, minimal plus generated redundant pairs); each must evaluate to the native value of the tree '
             '(ints as ints, floats bit-identical, booleans, concatenated text, #DIV/0!); non-trivial = two binary operators of different levels, a compound right operand of the same level or a unary minus under a binary operator, '
             'AND some re-association of the minimal rendering evaluates differently (a precedence slip would be visible)'),
]

LEVEL_TEXT = 'Hypothesis exploration of generated expression trees: three renderings evaluated through parse() against a native evaluation of the tree that never sees the grammar tables; a sensitivity measure counts the cases in which a wrong grouping would change the value.'
LEVEL_NOTE = 'Trusted: the renderer/evaluator in hx/gen_formula.py (precedence from the statement: unary minus > * / > + - > comparisons, & above comparisons).'
TECHNIQUE = 'Hypothesis tree generation + differential testing of renderings against a reference tree evaluator (metamorphic re-parenthesisation)'
