"""C05 - lexical conventions: literals, whitespace, separators, case, empty arguments."""
import re
import itertools
from decimal import Decimal
from fractions import Fraction

from hypothesis import strategies as st

from .. import gen_formula as gf
from ..env import Env
from ..law import Law, Violation, Skip
from ..values import enc, same_outcome, same_value

RULE = 'C05: decimal literals, string contents without the delimiting quote, spacing vectors at token boundaries of generated formulas, three separator styles, all present/absent patterns of up to 6 slots'
ASSUMPTIONS = ['"token boundary" is known by construction from the generating token list (a number literal, a cell/range reference, a function name with its opening parenthesis are single tokens)',
               'n% is accepted within one IEEE rounding of n/100',
               'a call/array that is rejected (error) is not judged by the slots/arrays laws: the statement speaks of accepted ones']

SEPS = [',', ';', '\\']


def rec_env(extra_vars=None):
    calls = []

    def rec(*args):
        calls.append(list(args))
        return len(calls)
    vars_ = {'v_a': 4, 'v_b': 9, 'v_s': 'txt', 'v_comma': ',', 'v_semi': ';', 'v_bslash': '\\'}
    vars_.update(extra_vars or {})
    env = Env(vars=vars_, cells={'B2': 6, 'C3': 'cell text', 'AA10': 2.5, 'N1': 71, 'T3': 'tee', 'R2': 0.125}, ranges={'B2:C3': [6, 7, 8]}, funcs={'REC': rec, 'ID': lambda x: x}, record=True)
    return env, calls


# ---------------------------------------------------------------- number literals

digits = st.text(st.sampled_from('0123456789'), min_size=1, max_size=25)
short_digits = st.text(st.sampled_from('0123456789'), min_size=1, max_size=12)


@st.composite
def number_case(draw):
    kind = draw(st.sampled_from(['int', 'dec', 'dotdec', 'pct', 'pow']))
    if kind == 'int':
        s = draw(digits)
        if draw(st.integers(0, 5)) == 0:
            # a long spelling (up to the 4300 digits the interpreter converts): a short block repeated, every digit counts
            n = draw(st.one_of(st.sampled_from([26, 100, 308, 309, 310, 311, 1000, 4000]), st.integers(26, 4000)))
            block = draw(short_digits)
            s = (block * (n // len(block) + 1))[:n]
    elif kind == 'dec':
        s = draw(short_digits) + '.' + draw(short_digits)
        if draw(st.integers(0, 5)) == 0:
            # the shortest spelling of an arbitrary double has up to 17 significant digits: all of them count
            s = draw(st.sampled_from(['3.141592653589793', '1.0000000000000002', '0.30000000000000004', '2.718281828459045', '9007199254740.993', '0.1234567890123456789', '123456789.12345678', '1.7976931348623157']))
    elif kind == 'dotdec':
        s = '.' + draw(short_digits)
    elif kind == 'pct':
        s = draw(short_digits) + '%'
    else:
        a = draw(st.one_of(st.integers(0, 20), st.integers(0, 10 ** 6)))
        b = draw(st.integers(0, 999))
        if a > 1 and b * len(str(a)) > 9000:
            b = b % 40
        s = '%s%d^%d' % ('0' * draw(st.integers(0, 2)), a, b)
    return {'kind': kind, 's': s, 'ctx': draw(st.sampled_from(['alone', 'neg', 'plus', 'call', 'paren', 'array', 'cmp']))}


def expected_number(kind, s):
    if kind == 'int':
        return int(s)
    if kind in ('dec', 'dotdec'):
        return float(Fraction(Decimal(('0' + s) if s.startswith('.') else s)))
    if kind == 'pct':
        return Fraction(int(s[:-1]), 100)
    a, b = s.split('^')
    return int(a) ** int(b)


def num_matches(kind, got, want):
    if isinstance(got, bool) or not isinstance(got, (int, float)):
        return False
    if kind == 'pct':
        if want == 0:
            return got == 0
        return abs(Fraction(got) - want) <= abs(want) * Fraction(1, 2 ** 51)
    if kind in ('int', 'pow'):
        return isinstance(got, int) and got == want
    return isinstance(got, float) and got == want


def check_number(case):
    kind, s, ctx = case['kind'], case['s'], case['ctx']
    want = expected_number(kind, s)
    env, calls = rec_env()
    text = {'alone': s, 'neg': '-' + s, 'plus': s + '+1', 'call': 'ID(%s)' % s, 'paren': '(%s)' % s, 'array': '{%s,1}' % s, 'cmp': '%s=%s' % (s, s)}[ctx]
    r = env.parse(text)
    g = r['result']
    if r['error'] is not None:
        raise Violation('literal %s in %s -> %s' % (s, text, r['error']), r['error'], enc(float(want) if isinstance(want, Fraction) else want))
    if ctx == 'neg':
        ok = num_matches(kind, -g if isinstance(g, (int, float)) and not isinstance(g, bool) else g, want)
    elif ctx == 'plus':
        if kind in ('int', 'pow'):
            ok = isinstance(g, int) and g == want + 1
        elif kind == 'pct':
            ok = isinstance(g, float) and abs(Fraction(g) - (want + 1)) <= Fraction(1, 2 ** 50) * (want + 1)
        else:
            ok = g == want + 1
    elif ctx == 'array':
        ok = isinstance(g, list) and len(g) == 2 and num_matches(kind, g[0], want) and g[1] == 1
    elif ctx == 'cmp':
        ok = g is True
    else:
        ok = num_matches(kind, g, want)
    if not ok:
        raise Violation('literal %s in %s evaluates to %r, it spells %s' % (s, text, g, float(want) if isinstance(want, Fraction) else want), enc(g), enc(float(want) if isinstance(want, Fraction) else want))


# ---------------------------------------------------------------- string literals

content_alpha = st.one_of(st.text(max_size=20), st.lists(st.sampled_from(['e\u0301', '\u00e9', 'A\u030a', '\u212b', '\u2126', '\u212a', '\ufb01', '\u1100\u1161', '\uf900', 'x', ' ', '\u0344', '\u00a0', '\u3000', '\u200b']), max_size=6).map(''.join), st.text(st.sampled_from('ab 1+-*/,;\\(){}#!?=<>&%^.:$\'"\t\n'), max_size=12),
                          st.sampled_from(['', ' ', '  ', '#N/A', '1+1', 'A1', ',', ';', '\\', '{', ')', 'TRUE', "it's", 'say "hi"', '=SUM(1,2)', '\\', 'a\\', '\\\\', ' x ']))


@st.composite
def string_case(draw):
    q = draw(st.sampled_from(['"', "'"]))
    s = draw(content_alpha).replace(q, '')
    return {'q': q, 's': s, 'ctx': draw(st.sampled_from(['alone', 'len', 'amp', 'call', 'eq', 'two']))}


def check_string(case):
    q, s, ctx = case['q'], case['s'], case['ctx']
    L = q + s + q
    env, calls = rec_env()
    if ctx == 'alone':
        text, want = L, s
    elif ctx == 'len':
        text, want = 'LEN(%s)' % L, len(s)
    elif ctx == 'amp':
        text, want = '%s&%sz%s' % (L, q, q), s + 'z'
    elif ctx == 'call':
        text, want = 'ID(%s)' % L, s
    elif ctx == 'eq':
        text, want = '%s=%s' % (L, L), True
    else:
        sep = SEPS[len(s) % 3]
        text, want = 'REC(%s%s%s)' % (L, sep, L), 1
    if re.search(r'\s', s) and len(s) % 2 == 0:
        # the same parser has just read the same formula with other white space inside the literal: what is between the quotes counts, character by character
        other = re.sub(r'\s+', lambda m: '  ' if m.group() == ' ' else ' ', s)
        env.parse(text.replace(L, q + other + q))
        del calls[:]
    r = env.parse(text)
    g = r['result']
    if r['error'] is not None or type(g) != type(want) or g != want:
        raise Violation('string literal %s (contents %r) in %s -> %r, expected %r' % (L, s, text, r['error'] or g, want), r['error'] or enc(g), enc(want))
    if ctx == 'two' and calls != [[s, s]]:
        raise Violation('%s received %r' % (text, calls), enc(calls), [[s, s]])


def string_key(case):
    return 'backslash-before-closing-quote' if case['s'].endswith('\\') else ''


# ---------------------------------------------------------------- trees for the metamorphic laws

leafs = st.one_of(st.sampled_from(['1', '2', '3', '10', '007']).map(lambda s: ['num', s]), st.sampled_from(['0.5', '.25', '12.50']).map(lambda s: ['dec', s]),
                  st.sampled_from(['v_a', 'v_b', 'v_s', 'TRUE', 'NULL', 'nosuch', 'v_comma', 'v_semi', 'v_bslash']).map(lambda n: ['var', n]),   # values equal to a separator character
                  st.sampled_from(['B2', '$B$2', 'c3', 'aa10', 'C$3', 'Z99', 'n1', 't3', 'r2', 'N1']).map(lambda n: ['cell', n]),       # (a backslash separator followed by n1 or t3 is no escape sequence)
                  st.sampled_from([['range', 'B2', 'C3'], ['range', 'c3', 'b2'], ['range', '$B$2', 'C3']]),
                  st.sampled_from([['str', 'a b', '"'], ['str', ' x ', "'"], ['str', 'p,q;r', '"'], ['str', '', '"'], ['str', '\t\n', '"'], ['str', ',', '"'], ['str', ';', '"'], ['str', ';', "'"], ['str', ',', "'"]]),
                  st.sampled_from(['#N/A', '#DIV/0!']).map(lambda c: ['errlit', c]))
OPS = gf.ARITH + gf.ARITH + gf.CMP + ['&']


def trees(max_leaves=8):
    def extend(ch):
        return st.one_of(
            st.tuples(st.just('bin'), st.sampled_from(OPS), ch, ch).map(list),
            st.tuples(st.just('neg'), ch).map(list),
            st.tuples(st.just('call'), st.sampled_from(['REC', 'SUM', 'CONCATENATE', 'IF', 'COUNT', 'ID']), st.lists(st.one_of(ch, ch, ch, st.none()), max_size=4)).map(list),
            st.tuples(st.just('arr'), st.lists(ch, min_size=1, max_size=4)).map(list),
            st.tuples(st.just('paren'), ch).map(list),
        )
    return st.recursive(leafs, extend, max_leaves=max_leaves)


def run(text):
    env, calls = rec_env()
    r = env.parse(text)
    return r, calls, env.log


def same_run(a, b):
    return same_outcome(a[0], b[0]) and same_value(a[1], b[1]) and a[2] == b[2]


def check_whitespace(case):
    toks = gf.tokens(case['tree'], 'min', ',')
    t0 = gf.join(toks)
    t1 = gf.join(toks, case['spacing'])
    if case['lead']:
        t1 = ' ' + t1 + '\n'
    a, b = run(t0), run(t1)
    if not same_run(a, b):
        raise Violation('whitespace changes the outcome: %r -> %r / calls %r, but %r -> %r / calls %r' % (t0, a[0], a[1], t1, b[0], b[1]), enc(b[0]['result']) if b[0]['error'] is None else b[0]['error'], enc(a[0]['result']) if a[0]['error'] is None else a[0]['error'])


def ws_key(case):
    toks = gf.tokens(case['tree'], 'min', ',')
    return 'leading-or-trailing' if False else ''


def check_separators(case):
    t = case['tree']
    runs = []
    for sep in SEPS:
        text = gf.render(t, 'min', sep)
        runs.append((text, run(text)))
    for text, r in runs[1:]:
        if not same_run(runs[0][1], r):
            raise Violation('separator style changes the outcome: %r -> %r / calls %r, but %r -> %r / calls %r' % (runs[0][0], runs[0][1][0], runs[0][1][1], text, r[0], r[1]), None, None)


def has_multi(t):
    return any((n[0] == 'call' and len(n[2]) >= 2) or (n[0] == 'arr' and len(n[1]) >= 2) for n in gf.walk(t))


def check_cell_case(case):
    t = case['tree']

    def recase(n, f):
        k = n[0]
        if k == 'cell':
            return ['cell', f(n[1])]
        if k == 'range':
            return ['range', f(n[1]), f(n[2])]
        if k in ('neg', 'paren'):
            return [k, recase(n[1], f)]
        if k == 'bin':
            return ['bin', n[1], recase(n[2], f), recase(n[3], f)]
        if k == 'call':
            return ['call', n[1], [None if a is None else recase(a, f) for a in n[2]]]
        if k == 'arr':
            return ['arr', [recase(a, f) for a in n[1]]]
        return n
    base = run(gf.render(recase(t, str.upper)))
    for f in (str.lower, str.swapcase, lambda s: ''.join(c.lower() if i % 2 else c.upper() for i, c in enumerate(s))):
        text = gf.render(recase(t, f))
        r = run(text)
        if not same_run(base, r):
            raise Violation('letter case of cell references changes the outcome: %r -> %r, upper-case -> %r; events %r vs %r' % (text, r[0], base[0], r[2], base[2]), None, None)


# ---------------------------------------------------------------- slots (exhaustive)

COMPOUND = ['1+2', 'ID(3)', '{4,5}', '"a,b"', '-6', 'REC(7)', '(8)', 'B2', 'v_a*2']


def enum_slots(tier, shard, nshards):
    i = 0
    for sep in SEPS:
        for n in range(1, 7):
            for pat in itertools.product([0, 1], repeat=n):
                i += 1
                if i % nshards == shard:
                    yield {'sep': sep, 'pat': list(pat), 'mode': 'simple'}
                if tier == 'thorough' or n <= 4:
                    i += 1
                    if i % nshards == shard:
                        yield {'sep': sep, 'pat': list(pat), 'mode': 'compound'}
                    i += 1
                    if i % nshards == shard:
                        yield {'sep': sep, 'pat': list(pat), 'mode': 'nested'}


def check_slots(case):
    sep, pat, mode = case['sep'], case['pat'], case['mode']
    n = len(pat)
    slots, want = [], []
    vals = {'1+2': 3, 'ID(3)': 3, '{4,5}': [4, 5], '"a,b"': 'a,b', '-6': -6, '(8)': 8, 'B2': 6, 'v_a*2': 8}
    for k, present in enumerate(pat):
        if not present:
            slots.append('')
            want.append(None)
        elif mode == 'simple':
            slots.append(str(k + 1))
            want.append(k + 1)
        else:
            c = [c for c in COMPOUND if c != 'REC(7)'][(k * 3 + n) % 8]
            c2 = c.replace(',', sep) if c == '{4,5}' else c
            slots.append(c2)
            want.append(vals[c])
    inner = 'REC(%s)' % sep.join(slots)
    text = inner if mode != 'nested' else 'ID(%s)+0*COUNT(1%s2)' % (inner, sep)
    env, calls = rec_env()
    # the same parser has read all-blank lists of 4-6 slots before (in another separator style): what one formula's argument list was must not leak into the next
    k = (n + sum(pat) + len(mode)) % 3
    sep2 = SEPS[(SEPS.index(sep) + 1 + k) % 3]
    for pre in ('REC(%s)' % (sep2 * (3 + k)), '{%s}' % (sep * 3), 'ID(%s)' % (sep2 * 2)):
        env.parse(pre)
    del calls[:]
    r = env.parse(text)
    accepted = r['error'] is None and bool(calls)
    if mode == 'simple':
        # the same list written with each of the other two separators: accepted or rejected alike, and the same arguments
        for other in SEPS:
            if other == sep:
                continue
            env3, calls3 = rec_env()
            r3 = env3.parse('REC(%s)' % other.join(slots))
            acc3 = r3['error'] is None and bool(calls3)
            if acc3 != accepted or (accepted and not same_value(calls3, calls)):
                raise Violation('the argument list %r is %s with %r (%r, calls %r) but %s with %r (%r, calls %r)' % (
                    slots, 'accepted' if accepted else 'rejected', sep, r, calls, 'accepted' if acc3 else 'rejected', other, r3, calls3), enc([accepted, calls]), enc([acc3, calls3]))
    if r['error'] is not None:
        raise Skip('rejected')
    if not calls:
        raise Skip('rejected')
    if n == 1 and not pat[0]:
        want = []
    if len(calls) != 1 or len(calls[0]) != len(want) or not same_value(calls[0], want):
        raise Violation('accepted call %s passed %r, expected one call with %r' % (text, calls, want), enc(calls), enc([want]))
    if mode == 'simple' and want:
        # the same list handed to a host function that declares defaults for all its parameters: a blank slot is a blank it is passed, not a parameter left out
        got = []

        def with_defaults(a=101, b=102, c=103, d=104, e=105, f=106):
            got.append([a, b, c, d, e, f][:len(want)])
            return 1
        env.P.set_function('RECD', with_defaults)
        r4 = env.parse('RECD(%s)' % sep.join(slots))
        if r4['error'] is None and (len(got) != 1 or not same_value(got[0], want)):
            raise Violation('RECD(%s), a host function whose parameters all have defaults, received %r; the slots hold %r' % (sep.join(slots), got, want), enc(got), enc([want]))


# ---------------------------------------------------------------- arrays

@st.composite
def array_case(draw):
    two = draw(st.booleans())
    elem = st.sampled_from(['1', '2', '30', '0.5', '"s"', 'v_a', 'B2', '-4', 'TRUE', '1+1', 'ID(9)'])
    if two:
        r1 = draw(st.lists(elem, min_size=2, max_size=5))
        r2 = draw(st.lists(elem, min_size=2, max_size=5))
        return {'rows': [r1, r2], 'sep': draw(st.sampled_from([',', '\\']))}
    return {'rows': [draw(st.lists(elem, min_size=1, max_size=6))], 'sep': draw(st.sampled_from(SEPS))}


ELEMV = {'1': 1, '2': 2, '30': 30, '0.5': 0.5, '"s"': 's', 'v_a': 4, 'B2': 6, '-4': -4, 'TRUE': True, '1+1': 2, 'ID(9)': 9}


def check_array(case):
    rows, sep = case['rows'], case['sep']
    if len(rows) == 1:
        text = '{' + sep.join(rows[0]) + '}'
        want = [ELEMV[e] for e in rows[0]]
    else:
        text = '{' + sep.join(rows[0]) + ';' + sep.join(rows[1]) + '}'
        want = [[ELEMV[e] for e in rows[0]], [ELEMV[e] for e in rows[1]]]
    env, calls = rec_env()
    r = env.parse(text)
    if r['error'] is not None:
        raise Skip('rejected')
    if not same_value(r['result'], want):
        raise Violation('array literal %s -> %r, expected %r' % (text, r['result'], want), enc(r['result']), enc(want))
    r2 = env.parse('REC(%s)' % text)
    if r2['error'] is None and (len(calls) != 1 or not same_value(calls[0], [want])):
        raise Violation('REC(%s) received %r, expected one argument %r' % (text, calls, want), enc(calls), enc([[want]]))
    if len(rows) == 1 and len(rows[0]) >= 2:
        # one element replaced by an array literal (or by a host list): the other elements stay what they are, the list stays flat around it
        k = len(text) % len(rows[0])
        for inner, iv in (('{7;8}', [7, 8]), ('v_pair', [4, 9])):
            els = list(rows[0])
            els[k] = inner
            t2 = '{' + sep.join(els) + '}'
            w2 = [ELEMV[e] for e in rows[0]]
            w2[k] = iv
            env3, calls3 = rec_env({'v_pair': [4, 9]})
            r3 = env3.parse(t2)
            if r3['error'] is None and not same_value(r3['result'], w2):
                raise Violation('array literal %s -> %r, expected %r' % (t2, r3['result'], w2), enc(r3['result']), enc(w2))


tree_case = st.fixed_dictionaries({'tree': trees(), 'spacing': gf.spacing_s, 'lead': st.booleans()})

LAWS = [
    Law('number_literals', check_number, strategy=number_case(), quick=4000, thorough=200000, shards=(8, 16),
        classes=lambda c: (c['kind'], 'ctx:' + c['ctx'], 'digits>309' if c['kind'] == 'int' and len(c['s']) > 309 else 'digits<=309'),
        required=('int', 'dec', 'dotdec', 'pct', 'pow', 'ctx:neg', 'ctx:call', 'digits>309'),
        nontrivial=lambda c: len(c['s']) >= 2,
        rule='digits (1-25, and one case in thirty 26-4000, leading zeros allowed), d.d, .d, d%, d^d alone and embedded (-lit, lit+1, ID(lit), (lit), {lit,1}, lit=lit): the value is exactly the spelled number '
             '(Python int; correctly rounded double of the decimal; n% within one rounding of n/100; a^b exact); non-trivial = two or more characters'),
    Law('string_literals', check_string, strategy=string_case(), key=string_key, quick=4000, thorough=200000, shards=(8, 16),
        classes=lambda c: ('q:' + c['q'], 'ctx:' + c['ctx'], 'backslash' if '\\' in c['s'] else 'plain', 'otherquote' if ('"' in c['s'] or "'" in c['s']) else 'noquote'),
        required=('q:"', "q:'", 'backslash', 'otherquote', 'ctx:amp', 'ctx:two'),
        nontrivial=lambda c: len(c['s']) >= 2,
        rule='contents over all of Unicode plus an operator/separator/quote/backslash-rich alphabet, minus the delimiting quote, in both quote styles, alone and embedded (LEN, &, call, =, two arguments): the value is exactly the contents'),
    Law('cell_case', check_cell_case, strategy=st.fixed_dictionaries({'tree': trees(6)}), quick=1500, thorough=60000, shards=(4, 16),
        nontrivial=lambda c: any(n[0] in ('cell', 'range') for n in gf.walk(c['tree'])),
        classes=lambda c: (('has-ref' if any(n[0] in ('cell', 'range') for n in gf.walk(c['tree'])) else 'no-ref'),), required=('has-ref',),
        rule='generated formulas with cell and range references re-spelled in upper, lower, swapped and alternating case: identical outcome, call arguments and reference events'),
    Law('whitespace', check_whitespace, strategy=tree_case, quick=4000, thorough=200000, shards=(8, 16),
        nontrivial=lambda c: sum(1 for s in c['spacing'] if s) >= 2 and gf.size(c['tree']) >= 3,
        rule='generated formula rendered to tokens and joined once without and once with a generated spacing vector (spaces, tabs, newlines, CRLF at token boundaries, optional leading/trailing whitespace): '
             'identical outcome, custom-function call log and reference events; non-trivial = two or more non-empty gaps on a formula of at least three nodes'),
    Law('separators', check_separators, strategy=st.fixed_dictionaries({'tree': trees()}), quick=3000, thorough=150000, shards=(8, 16),
        nontrivial=lambda c: has_multi(c['tree']), classes=lambda c: (('multi' if has_multi(c['tree']) else 'single'),), required=('multi',),
        rule='generated formula with calls (incl. omitted slots) and arrays rendered with , ; and \\ as separator: identical outcome, call log and events'),
    Law('slots', check_slots, enumerate=enum_slots, exhaustive=True, shards=(4, 8),
        classes=lambda c: ('mode:' + c['mode'],),
        rule='every separator x n = 1..6 slots x every present/absent pattern (378 simple texts; compound arguments and nesting up to n = 4 in quick, all in thorough): an accepted call passes exactly n arguments (0 for the empty call), blanks in absent slots, values in order; a simple list is accepted or rejected alike, with the same arguments, in all three separator styles'),
    Law('arrays', check_array, strategy=array_case(), quick=2000, thorough=60000, shards=(4, 8),
        classes=lambda c: ('rows%d' % len(c['rows']), 'sep:' + c['sep']), required=('rows1', 'rows2', 'sep:,', 'sep:;', 'sep:\\'),
        nontrivial=lambda c: len(c['rows']) == 2 or len(c['rows'][0]) >= 2,
        rule='{a,b,c} / {a;b;c} / {a\\b\\c} evaluate to the flat list of the element values; {row;row} with comma- or backslash-separated rows of 2-5 elements to the list of the two rows'),
]

LEVEL_TEXT = 'Hypothesis exploration of literal spelling and of three metamorphic relations (whitespace, separator style, letter case of references) over generated formulas with recording host callbacks; exhaustive sweep of all present/absent slot patterns up to 6 slots for the three separators.'
LEVEL_NOTE = 'Trusted: the token-list renderer of hx/gen_formula.py (token boundaries by construction), Python int/Decimal/Fraction for literal values.'
TECHNIQUE = 'Hypothesis metamorphic testing (whitespace / separator / case invariance) + round-trip of literals + exhaustive slot-pattern enumeration'
