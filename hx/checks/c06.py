"""C06 - arithmetic and concatenation follow the implicit type-conversion table."""
import datetime
import math
from fractions import Fraction

from hypothesis import strategies as st

from ..env import Env, lit, NoLiteral
from ..law import Law, Violation, Skip
from ..ref import arith as ra
from ..ref import dates as rd
from ..values import dec, enc, same_outcome, is_err

RULE = 'C06: ordered pairs of operands from 12 classes (integers, floats, logicals, blank, numeric text, non-numeric text, whole-day dates, date-times, ISO date text, flat arrays, nested arrays) x + - * / &'
ASSUMPTIONS = ['numeric value: number itself, TRUE/FALSE 1/0, blank 0, numeric text its number, date its reference serial (datetime.toordinal based); non-numeric text built from an alphabet dateutil cannot read',
               'date results are compared within 1 ms; results whose serial lies in [0,61) (January/February 1900 quirk region) or beyond 9999-12-31 are excluded and counted',
               'numeric results: exact for integers, 1e-9 relative otherwise',
               '& is asserted for text, integers and blank operands only (what the statement defines)',
               'array op array with exactly one operand of length 1 is asserted only through commutativity of + and *']

OPS = ['+', '-', '*', '/']


def _dt(t):
    d = datetime.datetime.fromordinal(t[0])
    if t[1]:
        d += datetime.timedelta(milliseconds=t[1])
    return {'$': 'dt', 'v': d.isoformat()}


ints = st.one_of(st.sampled_from([0, 1, -1, 2, -2, 7, 100]), st.integers(-1000, 1000), st.integers(-10 ** 15, 10 ** 15), st.integers(-1000, 1000),
                 st.one_of(st.integers(-2 ** 70, 2 ** 70), st.sampled_from([2 ** 53 + 1, -(2 ** 53) - 1, 10 ** 17 + 1, 3 ** 40])))        # Python integers pass through the evaluator exactly, beyond 2^53 too
floats = st.one_of(st.integers(-4000, 4000).map(lambda k: k / 8.0), st.integers(-10 ** 6, 10 ** 6).map(lambda k: k / 100.0),
                   st.tuples(st.floats(-9, 9), st.booleans()).map(lambda t: (10.0 ** t[0]) * (-1 if t[1] else 1)), st.sampled_from([0.5, -0.5, 0.1, 2.5]))
numtext = st.one_of(st.integers(-999, 999).map(str), st.integers(0, 99).map(lambda k: '+%d' % k),
                    st.tuples(st.integers(-99, 99), st.integers(0, 99)).map(lambda t: '%d.%02d' % t), st.integers(1, 99).map(lambda k: '.%d' % k), st.sampled_from(['12', '-4', '+3', '1.5', '.5', '0']), st.sampled_from(['1e3', '2.5E+16', '1E-05', '1e+05', '-4e2', '2.5e+16', '1.5E3', '7e0']))
badtext = st.one_of(st.just(''), st.text(st.sampled_from('qxzkwvg_!?'), min_size=1, max_size=8).filter(lambda s: s[0] not in '_'), st.sampled_from(['qxz', 'k!', 'wv?g']),
                     # text that contains a number without spelling one (and that a lenient date reader might be tempted by)
                     st.sampled_from(['x1', '12abc', '3 apples', '10 km', 'Q3', 'room 5', 'v2.0', '#5', 'abc123', 'a1b2', '5x', 'no 7', '7up']))
days = st.tuples(st.one_of(st.integers(rd.MAR1_ORD, rd.LAST_ORD), st.integers(rd.MAR1_ORD, 745000), st.sampled_from([737383, 734787, rd.MAR1_ORD])), st.just(0)).map(_dt)
datetimes = st.tuples(st.integers(rd.MAR1_ORD, 745000), st.integers(1, 86399999)).map(_dt)
isotext = st.tuples(st.integers(rd.MAR1_ORD, 745000), st.sampled_from([None, ' ', 'T']), st.integers(0, 86399)).map(
    lambda t: datetime.date.fromordinal(t[0]).isoformat() + ('' if t[1] is None else '%s%02d:%02d:%02d' % (t[1], t[2] // 3600, t[2] // 60 % 60, t[2] % 60)))
def _wordtext(t):
    d = datetime.date.fromordinal(t[0])
    mon = ['January', 'February', 'March', 'April', 'May', 'June', 'July', 'August', 'September', 'October', 'November', 'December'][d.month - 1]
    wd = ['Mon', 'Tue', 'Wed', 'Thu', 'Fri', 'Sat', 'Sun'][d.weekday()]
    return ['%d %s %d' % (d.day, mon[:3], d.year), '%s %d, %d' % (mon[:3], d.day, d.year), '%d %s %d' % (d.day, mon, d.year), '%s, %d %s %d' % (wd, d.day, mon[:3], d.year),
            '%04d%02d%02dT%02d%02d%02d' % (d.year, d.month, d.day, t[2] // 3600, t[2] // 60 % 60, t[2] % 60), '%s %d, %d' % (mon, d.day, d.year)][t[1]]


wordtext = st.tuples(st.integers(rd.MAR1_ORD, 745000), st.integers(0, 5), st.integers(0, 86399)).map(_wordtext)       # text that spells a date with the month as a word, or in compact ISO form
derived = st.one_of(st.integers(-50, 50).map(lambda k: {'$': 'sub', 'v': ['int', k]}), st.integers(-200, 200).map(lambda k: {'$': 'sub', 'v': ['float', k / 8.0]}))      # host numbers of classes derived from int / float
scalar_classes = {'int': st.one_of(ints, ints, ints, ints, derived), 'float': floats, 'logical': st.booleans(), 'blank': st.none(), 'numtext': numtext, 'badtext': badtext,
                  'date': days, 'datetime': datetimes, 'isotext': isotext, 'wordtext': wordtext}
any_scalar = st.one_of(*scalar_classes.values())
flat_arr = st.lists(st.one_of(ints, floats, ints, st.booleans(), st.none(), numtext, badtext, days), max_size=8)
nested_arr = st.lists(st.one_of(ints, st.lists(st.one_of(ints, floats, st.none()), min_size=1, max_size=3)), min_size=1, max_size=5)


@st.composite
def operand(draw):
    k = draw(st.sampled_from(sorted(scalar_classes) + ['flat', 'nested']))
    if k == 'flat':
        return [k, draw(flat_arr)]
    if k == 'nested':
        return [k, draw(nested_arr)]
    return [k, draw(scalar_classes[k])]


pair_case = st.fixed_dictionaries({'a': operand(), 'b': operand(), 'op': st.sampled_from(OPS), 'how': st.sampled_from(['var', 'var', 'lit', 'cell'])})


def spell(v, how, name, kw):
    if how == 'lit':
        try:
            return lit(v)
        except NoLiteral:
            how = 'var'
    if how == 'cell' and not isinstance(v, list):
        label = {'v_a': 'B2', 'v_b': 'C3'}[name]
        kw.setdefault('cells', {})[label] = v
        return label
    kw.setdefault('vars', {})[name] = v
    return name


def evaluate(op, a, b, how):
    kw = {}
    A = spell(a, how, 'v_a', kw)
    B = spell(b, how, 'v_b', kw)
    f = '%s%s%s' % (A, op, B)
    return f, Env(**kw).parse(f)


def date_slack(op, a, b, x):
    """How far the result moves when the serial of each date operand is off by one microsecond (a double holds a date-time of this era to about half a
    microsecond): twice that is allowed on top of the 1 ms.  For date +- number this is 2 us; it grows where the operation magnifies the operand
    (number / date with a small serial, date * large number), which is conditioning, not a defect."""
    eps = Fraction(1, 86400 * 10 ** 6)
    (lk, lv), (rk, rv) = ra.classify(a), ra.classify(b)
    worst = Fraction(0)
    for da in ((-eps, eps) if lk == 'date' else (Fraction(0),)):
        for db in ((-eps, eps) if rk == 'date' else (Fraction(0),)):
            l, r = lv + da, rv + db
            if op == '/' and r == 0:
                continue
            y = l + r if op == '+' else l - r if op == '-' else l * r if op == '*' else l / r
            worst = max(worst, abs(y - x))
    days = float(2 * worst)
    return datetime.timedelta(days=min(days, 1.0))


def judge_scalar(op, a, b, got):
    """got: a value (may be an XLError object inside arrays) -> None or message"""
    try:
        kind, x = ra.arith(op, a, b)
    except ra.Unspecified as u:
        raise Skip('unspecified-operand')
    if kind == 'err':
        if x == '#VALUE!' and op == '/' and is_err(got) and str(got) == '#DIV/0!':
            try:
                rk, rv = ra.classify(b)
                if rk != 'badtext' and rv == 0:
                    raise Skip('text-over-zero')        # non-numeric text divided by zero: both rules of the statement apply, which one wins is not said
            except ra.Unspecified:
                pass
        if not is_err(got) or str(got) != x:
            return 'expected %s' % x
        return None
    if kind == 'date':
        if x < 61 or x >= 2958466:
            raise Skip('date-result-outside-1mar1900..9999')
        want = rd.from_serial_exact(x)
        if not isinstance(got, datetime.datetime) or abs(got - want) > datetime.timedelta(milliseconds=1) + date_slack(op, a, b, x):
            return 'expected the date %s' % want
        return None
    if isinstance(got, bool) or not isinstance(got, (int, float)):
        return 'expected the number %s' % (float(x) if x.denominator != 1 else int(x))
    if isinstance(got, float) and not math.isfinite(got):
        return 'expected the number %r' % float(x)
    if Fraction(got) == x:
        return None
    if isinstance(got, int) and x.denominator == 1:
        return 'expected %d' % int(x)
    if op in '+-*' and all(v is None or isinstance(v, (int, bool)) for v in (a, b)):
        # integers, logicals and blanks under + - *: "the exact arithmetic on those values" is an integer and nothing has to be rounded
        return 'expected exactly %d (both operands are integers, logicals or blank)' % int(x)
    if abs(Fraction(got) - x) <= Fraction(1, 10 ** 9) * max(1, abs(x)):
        return None
    return 'expected %r' % float(x)


def elementwise(op, a, b):
    """reference broadcasting -> structure of (a_elem, b_elem) pairs, or 'mismatch' / raises Skip"""
    if isinstance(a, list) and isinstance(b, list):
        if len(a) == 1 or len(b) == 1:
            raise Skip('array-length-1-broadcast')      # one-element arrays act like scalars: shape not stated
        if len(a) != len(b):
            return 'mismatch'
        return [elementwise(op, x, y) for x, y in zip(a, b)]
    if isinstance(a, list):
        return [elementwise(op, x, b) for x in a]
    if isinstance(b, list):
        return [elementwise(op, a, y) for y in b]
    return (a, b)


def judge(op, struct, got, path=''):
    if struct == 'mismatch':
        if not is_err(got) or str(got) != '#VALUE!':
            return 'at %s: arrays of different length, expected #VALUE!' % (path or 'top')
        return None
    if isinstance(struct, list):
        if not isinstance(got, list) or len(got) != len(struct):
            return 'at %s: expected a list of %d results, got %r' % (path or 'top', len(struct), got)
        for i, (s, g) in enumerate(zip(struct, got)):
            m = judge(op, s, g, '%s[%d]' % (path, i))
            if m:
                return m
        return None
    m = judge_scalar(op, struct[0], struct[1], got)
    return ('at %s: %r %s %r = %r, %s' % (path or 'top', struct[0], op, struct[1], got, m)) if m else None


def probe(op, struct):
    if isinstance(struct, list):
        for s in struct:
            probe(op, s)
    elif isinstance(struct, tuple):
        try:
            kind, x = ra.arith(op, struct[0], struct[1])
        except ra.Unspecified:
            raise Skip('unspecified-operand')
        if kind == 'date' and (x < 61 or x >= 2958466):
            raise Skip('date-result-outside-1mar1900..9999')


def check_pair(case):
    a, b, op = dec(case['a'][1]), dec(case['b'][1]), case['op']
    f, r = evaluate(op, a, b, case['how'])
    got = r['result']
    if r['error'] is not None:
        got = _err(r['error'])
    struct = elementwise(op, a, b)
    if isinstance(struct, list) and r['error'] is not None:
        probe(op, struct)       # raises Skip when some element lies in an excluded region (its failure aborts the whole operation)
        # an error for the whole array operation is only right for a length mismatch
        raise Violation('%r %s %r -> %s, expected element-wise results' % (a, op, b, r['error']), r['error'], None)
    m = judge(op, struct, got)
    if m:
        raise Violation('%r %s %r -> %r; %s' % (a, op, b, r['error'] or r['result'], m), r['error'] or enc(r['result']), None)
    if r['error'] is not None and r['result'] is not None:
        raise Violation('%s: error %s with a non-empty result %r' % (f, r['error'], r['result']), enc(r['result']), None)


class _E(Exception):
    pass


def _err(code):
    from ..env import errors
    return errors().from_message(code)


def check_commute(case):
    a, b, op = dec(case['a'][1]), dec(case['b'][1]), case['op']
    if op not in '+*':
        op = '+' if op == '-' else '*'
    f1, r1 = evaluate(op, a, b, case['how'])
    f2, r2 = evaluate(op, b, a, case['how'])
    if not same_outcome(r1, r2, tol=1e-3):
        raise Violation('%r %s %r -> %r but swapped -> %r' % (a, op, b, r1['error'] or r1['result'], r2['error'] or r2['result']),
                        r1['error'] or enc(r1['result']), r2['error'] or enc(r2['result']))


amp_operand = st.one_of(st.text(max_size=8), st.text(st.sampled_from('ab 1,;"\''), max_size=5), st.integers(-10 ** 12, 10 ** 12), st.integers(-9, 99), st.none(), st.integers(-10 ** 30, 10 ** 30))


def check_amp(case):
    a, b = case['a'], case['b']
    f, r = evaluate('&', a, b, case['how'])
    want = ra.concat_piece(a) + ra.concat_piece(b)
    if r['error'] is not None or not isinstance(r['result'], str) or r['result'] != want:
        raise Violation('%r & %r -> %r, expected %r' % (a, b, r['error'] or r['result'], want), r['error'] or enc(r['result']), want)
    if isinstance(a, int) and isinstance(b, int) and abs(a) < 10 ** 9 and abs(b) < 10 ** 9:
        # the sum / difference / product of two integers is an integer and joins as its digits - also after
        # floats of the same values have been through the arithmetic of the same process
        env = Env(vars={'v_a': a, 'v_b': b, 'v_fa': float(a), 'v_fb': float(b)})
        env.parse('{v_fa*1,v_fb+0,v_fa-v_fb,TRUE+0}')
        for op, val in (('+', a + b), ('-', a - b), ('*', a * b)):
            r = env.parse('(v_a%sv_b)&"x"' % op)
            if r['error'] is not None or r['result'] != str(val) + 'x':
                raise Violation('(%r %s %r) & "x" -> %r, expected %r (integers join as their digits)' % (a, op, b, r['error'] or r['result'], str(val) + 'x'), r['error'] or enc(r['result']), str(val) + 'x')
            r = env.parse('v_a%sv_b' % op)
            if r['error'] is not None or isinstance(r['result'], bool) or not isinstance(r['result'], int) or r['result'] != val:
                raise Violation('%r %s %r -> %r, expected the integer %r' % (a, op, b, r['error'] or r['result'], val), r['error'] or enc(r['result']), val)
    if case['c'] is not None:
        c = case['c']
        kw = {'vars': {'v_a': a, 'v_b': b, 'v_c': c}}
        r = Env(**kw).parse('v_a&v_b&v_c')
        want3 = want + ra.concat_piece(c)
        if r['error'] is not None or r['result'] != want3:
            raise Violation('%r & %r & %r -> %r, expected %r' % (a, b, c, r['error'] or r['result'], want3), r['error'] or enc(r['result']), want3)


def classes(c):
    return ('%s%s%s' % (c['a'][0], c['op'], c['b'][0]), 'L:' + c['a'][0], 'R:' + c['b'][0], 'how:' + c['how'])


def key_pair(c):
    ks = (c['a'][0], c['b'][0])
    if 'flat' in ks or 'nested' in ks:
        return 'array'
    return ''


# ---------------------------------------------------------------- the process time zone does not matter

TZ_FORMULAS = ['DATE(2019,11,20)+1', '1+DATE(2019,7,1)', 'DATE(2019,7,1)-0.5', 'DATE(2019,3,10)+1.1', 'DATE(2019,7,1)*1', '200000000/DATE(2019,11,20)', 'DATE(2019,7,1)-DATE(2019,1,1)', '"2019-07-01"+1', '"2019-03-31 02:30:00"+0',
               '{1,2}+DATE(2019,11,3)', 'DATE(2019,11,3)+{0.5;1.5}', 'DATE(2019,7,1)&""', '(DATE(2019,7,1)+1)&""', 'DATE(1900,3,1)+0.25', 'v_d+43647', 'DATE(2019,7,1)/1', '5-DATE(2019,7,1)']


def enum_tz(tier, shard, nshards):
    zones = ['America/New_York', 'Europe/Berlin', 'Australia/Lord_Howe', 'Asia/Kolkata', 'America/Sao_Paulo']
    for i, z in enumerate(zones[:3] if tier == 'quick' else zones):
        if i % nshards == shard:
            yield z


def check_tz(zone):
    import os
    from ..freshproc import run_fresh
    if not os.path.exists('/usr/share/zoneinfo/' + zone):
        raise Skip('zone-data-missing')
    base = run_fresh(TZ_FORMULAS, env_extra={'TZ': 'UTC'})
    other = run_fresh(TZ_FORMULAS, env_extra={'TZ': zone})
    for f, a, b in zip(TZ_FORMULAS, base, other):
        if a != b:
            raise Violation('in a process whose time zone is %s, %s gives %s; under UTC it gives %s (a date-valued result is the date with that serial, whatever the zone of the process)' % (zone, f, b, a), b, a)


def nontrivial(c):
    a, b = c['a'], c['b']
    if a[0] != b[0]:
        return True
    return a[0] in ('float', 'datetime', 'flat', 'nested') or (a[0] == 'int' and (isinstance(a[1], dict) or isinstance(b[1], dict) or a[1] < 0 or b[1] < 0))


ALLK = sorted(scalar_classes) + ['flat', 'nested']

LAWS = [
    Law('pairs', check_pair, strategy=pair_case, classes=classes, key=key_pair, nontrivial=nontrivial,
        required=tuple('L:' + k for k in ALLK) + tuple('R:' + k for k in ALLK) + ('date+int', 'int+date', 'date-date', 'date/blank', 'blank/date', 'badtext+int', 'int/int', 'flat+flat', 'how:lit', 'how:cell'),
        quick=8000, thorough=300000, shards=(8, 16),
        rule='ordered operand pairs, classes drawn uniformly (11 classes x 11 classes x 4 operators), given as variables, cells or literals: result kind and value from the reference '
             '(numeric values, date-returning cells of the table, #VALUE! for text, #DIV/0!, #NUM! for negative date results), arrays element-wise with #VALUE! on a length mismatch; '
             'non-trivial = operands of different classes, or non-integer / negative / time-carrying / array operands'),
    Law('timezone_independence', check_tz, enumerate=enum_tz, shards=(3, 5), guard=400,
        rule='17 formulas whose operands or results are dates are evaluated in a brand-new interpreter under TZ=UTC and under zones with daylight saving or a fractional offset: every outcome is the same'),
    Law('commutativity', check_commute, strategy=pair_case, classes=lambda c: ('array' if key_pair(c) else 'scalar',), required=('array', 'scalar'), key=key_pair,
        quick=3000, thorough=100000, shards=(4, 16), nontrivial=nontrivial,
        rule='a+b vs b+a and a*b vs b*a give the same outcome (result, element-wise, or error) for every pair incl. arrays'),
    Law('concatenation', check_amp, strategy=st.fixed_dictionaries({'a': amp_operand, 'b': amp_operand, 'c': st.one_of(st.none(), amp_operand), 'how': st.sampled_from(['var', 'lit', 'cell'])}),
        classes=lambda c: (('blank' if c['a'] is None or c['b'] is None else 'noblank'), ('int' if isinstance(c['a'], int) or isinstance(c['b'], int) else 'text')), required=('blank', 'int'),
        key=lambda c: 'blank-operand' if (c['a'] is None or c['b'] is None or c['c'] is None and False) else '',
        quick=3000, thorough=100000, shards=(4, 8), nontrivial=lambda c: c['a'] is None or c['b'] is None or isinstance(c['a'], int) or isinstance(c['b'], int),
        rule='a & b (& c) over text, integers and blank: text verbatim, integers as their digits, blank as nothing; for integer a, b also (a+b)&"x", (a-b)&"x", (a*b)&"x" after floats of the same values were evaluated: integer arithmetic stays integer'),
]

LEVEL_TEXT = 'Hypothesis exploration over all 11x11 operand-class pairs and four operators (every class required on both sides) against a reference transcribed from the statement: numeric values, where a date comes back, error outcomes, element-wise arrays; commutativity as a metamorphic relation; concatenation against Python strings.'
LEVEL_NOTE = 'Trusted: hx/ref/arith.py and the reference serial of hx/ref/dates.py. Date results in the January/February 1900 region or beyond year 9999 are excluded and counted.'
TECHNIQUE = 'Hypothesis differential testing against a reference conversion model + commutativity metamorphic relation'
