"""C07 - comparisons form a consistent total order with number < text < logical."""
import datetime

from hypothesis import strategies as st

from ..env import Env, lit, NoLiteral
from ..law import Law, Violation, Skip
from ..ref import order as ro
from ..ref import dates as rd
from ..values import dec, enc

RULE = 'C07: scalars of every type (integers, floats incl. negative/fractional/-0.0, whole-day dates and date-times, text incl. empty and numeric-looking, logicals, blank) as variables, cells and literals'
ASSUMPTIONS = ['text direction is asserted only where code-point order and case-folded order agree (the laws of trichotomy, derivation, converse and transitivity are asserted regardless)',
               'dates before 1 March 1900 take part in the structural laws only (their serials are the quirk region of C13)',
               'transitivity is asserted on non-blank triples, as stated']

OPS = ['<', '=', '>', '<=', '>=', '<>']

numbers = st.one_of(st.integers(-5, 5), st.integers(-10 ** 9, 10 ** 9), st.sampled_from([0, 1, -1, 0.0, -0.0, 0.5, -0.5, 2.5, 1e-9, 43789, 43789.25, 61, 2]),
                    st.floats(-1e6, 1e6, allow_nan=False), st.integers(-400, 400).map(lambda k: k / 8.0),
                    st.sampled_from([{'$': 'f', 'v': 'inf'}, {'$': 'f', 'v': '-inf'}, 1e308, -1e308, 5e-324, {'$': 'pow', 'v': [10, 400]}, {'$': 'pow', 'v': [-7, 401]}, {'$': 'pow', 'v': [2, 1024]}]),        # the far ends of the float domain, from the host
                    # host numbers whose class derives from int / float (an IntEnum member, a numpy-style scalar)
                    st.one_of(st.integers(-9, 9).map(lambda k: {'$': 'sub', 'v': ['int', k]}), st.integers(-40, 40).map(lambda k: {'$': 'sub', 'v': ['float', k / 4.0]})))


def _dt(t):
    d = datetime.datetime.fromordinal(t[0])
    if t[1] is not None:
        d += datetime.timedelta(milliseconds=t[1])
    return {'$': 'dt', 'v': d.isoformat()}


dates = st.tuples(st.one_of(st.integers(rd.MAR1_ORD, rd.LAST_ORD), st.integers(rd.MAR1_ORD, 750000), st.sampled_from([737383, 693655, 693656])),
                  st.one_of(st.none(), st.none(), st.integers(0, 86399999))).map(_dt)
early_dates = st.sampled_from([{'$': 'dt', 'v': '9999-12-31T12:00:00'}, {'$': 'dt', 'v': '9999-12-31T23:59:59.999000'}, {'$': 'dt', 'v': '9999-12-31T00:00:00'}, {'$': 'dt', 'v': '1900-01-01T00:00:00'}, {'$': 'dt', 'v': '1900-01-02T00:00:00'}, {'$': 'dt', 'v': '1900-02-28T12:00:00'}, {'$': 'dt', 'v': '1900-01-01T06:00:00'}])
texts = st.one_of(st.sampled_from(['\U0001f600', '\uff21', '\ue000', '\U00020bb7', 'a\U0001f600', 'a\uffff', '\ufffd', '\U0010ffff']), st.sampled_from(['e\u0301', '\u00e9', 'A\u030a', '\u212b', '\u00c5', 'e\u0301x', '\ufb01', 'fi', '\u1e9b\u0323', 'a\u0308', '\u00e4']),
                  st.sampled_from(['', '2', '-1', '10', '9', 'a', 'A', 'b', 'B', 'ab', 'aB', 'Ab', 'TRUE', 'FALSE', ' ', '!', 'z', 'é', 'É', '0']),
                  st.sampled_from(['2019-11-19', '2019-11-20', '14/10/1900', '12:30', 'may', '20 Nov 2019', '1900-03-01', '43789', '1e3', '\x00', 'a\x00', 'a\x00b', '\x00\x00', '#N/A', '#DIV/0!', '#VALUE!', '#n/a']),      # text that spells a date or a time is text all the same
                  st.text(st.sampled_from('abAB12 -!é'), max_size=4), st.text(max_size=5))
scalar = st.one_of(numbers, numbers, dates, dates, dates, early_dates, texts, texts, texts, st.booleans(), st.none())


@st.composite
def same_day_pair(draw):
    """a date-time and a number that lies in the same day (its whole serial, the next one, or a fraction in between)"""
    o = draw(st.integers(rd.MAR1_ORD, 750000))
    ms = draw(st.one_of(st.integers(1, 86399999), st.just(0), st.just(43200000)))
    d = _dt((o, ms))
    k = o - rd.EPOCH_ORD
    n = draw(st.sampled_from([k, k + 1, k + 0.5, k + 0.25, k - 1, float(k)]))
    return (d, n) if draw(st.booleans()) else (n, d)


@st.composite
def near_pair(draw):
    """two values that are different but very close, or equal across int/float: neighbouring doubles, integers beyond 2^53 and their neighbours, date-times seconds or milliseconds apart"""
    import math
    k = draw(st.integers(0, 3))
    if k == 0:
        x = draw(st.one_of(st.floats(-1e6, 1e6, allow_nan=False), st.sampled_from([0.3, 0.1 + 0.2, 1.0, 1e15, 43789.25, 0.1, 100.0, 1e-7, 2.0 ** 52])))
        y = x
        for _ in range(draw(st.integers(1, 4))):
            y = math.nextafter(y, draw(st.sampled_from([math.inf, -math.inf])))
        a, b = x, y
    elif k == 1:
        n = draw(st.sampled_from([2 ** 53, 2 ** 53 + 1, 2 ** 54 + 2, 10 ** 17 + 1, 2 ** 63, 2 ** 64 + 1, 3 ** 40, -(2 ** 53) - 1])) + draw(st.integers(-3, 3))
        a, b = n, draw(st.sampled_from([n, n + 1, n - 1, n + 2, float(n), float(n + 1)]))
    elif k == 2:
        o = draw(st.integers(rd.MAR1_ORD, rd.LAST_ORD - 1))
        ms = draw(st.integers(0, 86000000))
        delta = draw(st.sampled_from([1, 2, 1000, 2000, 3000, 60000, 200000, 0]))
        a, b = _dt((o, ms)), _dt((o, ms + delta))
    else:
        # date-times 1-3 microseconds apart: a double cannot always tell their serials apart, so only the structural laws are judged (see check_pair)
        o = draw(st.integers(rd.MAR1_ORD, 760000))
        us = draw(st.integers(0, 86399999990))
        d0 = datetime.datetime.fromordinal(o) + datetime.timedelta(microseconds=us)
        d1 = d0 + datetime.timedelta(microseconds=draw(st.integers(1, 3)))
        a, b = {'$': 'dt', 'v': d0.isoformat()}, {'$': 'dt', 'v': d1.isoformat()}
    return (a, b) if draw(st.booleans()) else (b, a)


nonblank = st.one_of(numbers, numbers, dates, dates, early_dates, texts, texts, texts, st.booleans())


def cls(spec):
    if spec is None:
        return 'blank'
    if isinstance(spec, bool):
        return 'logical'
    if isinstance(spec, dict):
        if spec.get('$') == 'sub':
            return 'text' if spec['v'][0] == 'str' else 'number'
        if spec.get('$') in ('f', 'pow'):
            return 'number'
        return 'date'
    if isinstance(spec, str):
        return 'text'
    return 'number'


def spell(v, how, name, kw):
    if how == 'lit':
        try:
            return lit(v)
        except NoLiteral:
            how = 'var'
    if how == 'cell':
        label = {'v_a': 'B2', 'v_b': 'C3', 'v_c': 'D4'}[name]
        kw.setdefault('cells', {})[label] = v
        return label
    kw.setdefault('vars', {})[name] = v
    return name


def table(a, b, how, na='v_a', nb='v_b'):
    """all six operators both ways round -> dict"""
    kw = {}
    A = spell(a, how, na, kw)
    B = spell(b, how, nb, kw)
    parts = ['%s%s%s' % (A, op, B) for op in OPS] + ['%s%s%s' % (B, op, A) for op in OPS]
    f = '{' + ','.join(parts) + '}'
    r = Env(**kw).parse(f)
    g = r['result']
    if r['error'] is not None or not isinstance(g, list) or len(g) != 12 or not all(isinstance(x, bool) for x in g):
        raise Violation('comparing %r with %r: %s -> %r (twelve logicals expected)' % (a, b, f, r['error'] or g), r['error'] or enc(g), 'logicals')
    ab = dict(zip(OPS, g[:6]))
    ba = dict(zip(OPS, g[6:]))
    return ab, ba


def structural(a, b, ab, ba):
    d = 'a=%r b=%r: ' % (a, b)
    if [ab['<'], ab['='], ab['>']].count(True) != 1:
        raise Violation(d + 'a<b, a=b, a>b = %r, %r, %r: not exactly one TRUE' % (ab['<'], ab['='], ab['>']), [ab['<'], ab['='], ab['>']], None)
    if ab['<='] != (ab['<'] or ab['=']) or ab['>='] != (ab['>'] or ab['=']) or ab['<>'] != (not ab['=']):
        raise Violation(d + 'derived operators disagree: %r' % (ab,), enc(ab), None)
    if ab['<'] != ba['>'] or ab['>'] != ba['<'] or ab['='] != ba['='] or ab['<='] != ba['>='] or ab['<>'] != ba['<>']:
        raise Violation(d + 'a OP b = %r but b OP a = %r' % (ab, ba), enc(ab), enc(ba))


def check_pair(case):
    a, b = dec(case['a']), dec(case['b'])
    ab, ba = table(a, b, case['how'])
    structural(a, b, ab, ba)
    if isinstance(a, datetime.datetime) and isinstance(b, datetime.datetime) and a != b and abs(a - b) < datetime.timedelta(microseconds=100):
        return          # serials closer than a double resolves: which of <, =, > holds is a matter of rounding; that exactly one holds was checked
    try:
        c = ro.compare(a, b)
    except ro.Ambiguous:
        raise Skip('direction-not-stated')
    want = {'<': c < 0, '=': c == 0, '>': c > 0}
    for op in '<=>':
        if ab[op] != want[op]:
            raise Violation('a=%r b=%r: a%sb is %r; number/date < text < logical, %s' % (a, b, op, ab[op], 'reference says %r' % want[op]), ab[op], want[op])


def check_blank(case):
    y = dec(case['y'])
    rep = ro.unblank(None, y)
    ab, ba = table(None, y, case['how'])
    structural(None, y, ab, ba)
    if y is None:
        if not ab['=']:
            raise Violation('blank = blank is %r' % ab['='], ab['='], True)
        return
    ab2, ba2 = table(rep, y, 'var' if case['how'] == 'cell' else case['how'])
    if ab != ab2 or ba != ba2:
        raise Violation('blank OP %r = %r but %r OP %r = %r' % (y, ab, rep, y, ab2), enc(ab), enc(ab2))


def check_triple(case):
    a, b, c = dec(case['a']), dec(case['b']), dec(case['c'])
    how = case['how']
    ab, ba = table(a, b, how, 'v_a', 'v_b')
    bc, cb = table(b, c, how, 'v_b', 'v_c')
    ac, ca = table(a, c, how, 'v_a', 'v_c')
    for x, y, t, u in ((a, b, ab, ba), (b, c, bc, cb), (a, c, ac, ca)):
        structural(x, y, t, u)
    d = 'a=%r b=%r c=%r: ' % (a, b, c)
    # all orientations of the three pairs
    rel = {('a', 'b'): ab, ('b', 'a'): ba, ('b', 'c'): bc, ('c', 'b'): cb, ('a', 'c'): ac, ('c', 'a'): ca}
    names = ['a', 'b', 'c']
    for x in names:
        for y in names:
            for z in names:
                if len({x, y, z}) != 3:
                    continue
                xy, yz, xz = rel[(x, y)], rel[(y, z)], rel[(x, z)]
                if xy['<'] and yz['<'] and not xz['<']:
                    raise Violation(d + '%s<%s and %s<%s but not %s<%s' % (x, y, y, z, x, z), None, None)
                if xy['='] and yz['='] and not xz['=']:
                    raise Violation(d + '%s=%s and %s=%s but not %s=%s' % (x, y, y, z, x, z), None, None)
                if xy['<'] and yz['='] and not xz['<']:
                    raise Violation(d + '%s<%s and %s=%s but not %s<%s' % (x, y, y, z, x, z), None, None)
                if xy['='] and yz['<'] and not xz['<']:
                    raise Violation(d + '%s=%s and %s<%s but not %s<%s' % (x, y, y, z, x, z), None, None)


# ---------------------------------------------------------------- the process time zone does not matter

TZ_FORMULAS = ['(DATE(2021,7,15)+0.5)=44392.5', '(DATE(2021,7,15)+0.5)<44392.5', 'DATE(2021,7,15)=44392', 'DATE(2021,1,15)=44211', '(DATE(2021,3,14)+0.105)<(DATE(2021,3,14)+0.132)', '(DATE(2021,3,14)+0.105)=(DATE(2021,3,14)+0.146)',
               '"2021-03-28 01:30:00"<"2021-03-28 03:10:00"', 'DATEVALUE("2021-03-28 02:30:00")>DATEVALUE("2021-03-28 01:59:00")', 'DATE(2021,10,31)+0.05>DATE(2021,10,31)+0.04', 'DATE(2021,11,7)>=44507', 'DATE(1990,6,1)<>33025',
               'DATE(2021,7,15)>"a"', 'DATE(2021,7,15)<TRUE', 'v_d=0', 'v_d<1', '44392.5>DATE(2021,7,15)']


def enum_tz(tier, shard, nshards):
    zones = ['America/New_York', 'Europe/London', 'Australia/Lord_Howe', 'America/Sao_Paulo', 'Asia/Tokyo']
    for i, z in enumerate(zones[:3] if tier == 'quick' else zones):
        if i % nshards == shard:
            yield z


def check_tz(zone):
    import os
    from ..freshproc import run_fresh
    if not os.path.exists('/usr/share/zoneinfo/' + zone):
        raise Skip('zone-data-missing')
    base = run_fresh(TZ_FORMULAS, env_extra={'TZ': 'UTC'})
    other = run_fresh(TZ_FORMULAS, env_extra={'TZ': zone})
    for f, a, b in zip(TZ_FORMULAS, base, other):
        if a != b:
            raise Violation('in a process whose time zone is %s, %s gives %s; under UTC it gives %s (dates order by serial, whatever the zone of the process)' % (zone, f, b, a), b, a)


def pair_classes(c):
    a, b = cls(c['a']), cls(c['b'])
    out = ['%s-%s' % tuple(sorted([a, b])), 'how:' + c['how']]
    if c.get('near'):
        out.append('near-pair')
    return out


def pair_key(c):
    ks = sorted([cls(c['a']), cls(c['b'])])
    if ks in (['logical', 'number'], ['date', 'logical']):
        return 'logical-vs-number'
    return ''


def triple_key(c):
    ks = set(cls(c[k]) for k in 'abc')
    if 'logical' in ks and ('number' in ks or 'date' in ks):
        return 'logical-vs-number'
    return ''


def nontrivial_pair(c):
    a, b = c['a'], c['b']
    if cls(a) != cls(b):
        return True
    return a != b and not (isinstance(a, int) and isinstance(b, int) and 0 < a < 10 and 0 < b < 10)


how_s = st.sampled_from(['var', 'var', 'lit', 'cell'])
PAIRS = ['date-date', 'date-logical', 'date-number', 'date-text', 'logical-logical', 'logical-number', 'logical-text', 'number-number', 'number-text', 'text-text', 'blank-number', 'blank-text', 'blank-logical', 'blank-date']

LAWS = [
    Law('pairs', check_pair, strategy=st.one_of(st.fixed_dictionaries({'a': scalar, 'b': scalar, 'how': how_s}), st.fixed_dictionaries({'a': scalar, 'b': scalar, 'how': how_s}),
                                                st.tuples(same_day_pair(), how_s).map(lambda t: {'a': t[0][0], 'b': t[0][1], 'how': t[1]}),
                                                st.tuples(near_pair(), how_s).map(lambda t: {'a': t[0][0], 'b': t[0][1], 'how': t[1], 'near': True})), key=pair_key, classes=pair_classes, nontrivial=nontrivial_pair,
        required=tuple(PAIRS) + ('how:lit', 'how:cell', 'near-pair'), quick=6000, thorough=300000, shards=(8, 16),
        rule='ordered pairs of scalars (a quarter of them a date-time with a number of the same day, or two values that differ by 1-4 ulps, integers beyond 2^53 with their neighbours and float twins, date-times 1 ms - 200 s apart); one formula evaluates the six operators both ways round: trichotomy, derived operators, converse, and direction against the reference order (number|date by value/serial < text < logical, blank as 0 / "" / FALSE); '
             'non-trivial = operands of different classes, or unequal same-class operands that are not both small positive integers'),
    Law('timezone_independence', check_tz, enumerate=enum_tz, shards=(3, 5), guard=400,
        rule='16 comparisons between dates, date-times, date text and serials are evaluated in a brand-new interpreter under TZ=UTC and under zones with daylight saving: every outcome is the same'),
    Law('blank', check_blank, strategy=st.fixed_dictionaries({'y': scalar, 'how': how_s}), quick=1500, thorough=60000, shards=(4, 8),
        classes=lambda c: (cls(c['y']),), required=('number', 'text', 'logical', 'date', 'blank'),
        rule='blank OP y gives the same twelve answers as 0 OP y (numbers, dates), "" OP y (text), FALSE OP y (logicals); blank = blank'),
    Law('triples', check_triple, strategy=st.fixed_dictionaries({'a': nonblank, 'b': nonblank, 'c': nonblank, 'how': st.sampled_from(['var', 'var', 'lit'])}), key=triple_key,
        classes=lambda c: ('classes%d' % len(set(cls(c[k]) for k in 'abc')),), required=('classes2', 'classes3'),
        nontrivial=lambda c: len(set(cls(c[k]) for k in 'abc')) >= 2,
        quick=3000, thorough=120000, shards=(8, 16),
        rule='non-blank triples of scalars: transitivity of < and =, and their mixtures, over all six orientations'),
]

LEVEL_TEXT = 'Comparisons re-evaluated in fresh interpreters under time zones with daylight saving; Hypothesis exploration over pairs and triples of every scalar class (all 14 class pairs required to occur), checking the order axioms through parse() and the direction against a reference order written from the statement.'
LEVEL_NOTE = 'Trusted: hx/ref/order.py. Text direction is only asserted where case-folded and code-point order agree.'
TECHNIQUE = 'Hypothesis property testing of order axioms (trichotomy, converse, transitivity) + reference order model'
