"""C08 - error values propagate through operators and can be trapped."""
from hypothesis import strategies as st

from .. import gen_formula as gf
from ..env import Env, errors
from ..law import Law, Violation, Skip
from ..ref.arith import Err, Unspecified
from ..values import enc, CODES8

RULE = 'C08: expression trees in which a non-empty subset of leaves is an error-producing sub-expression (8 codes x 12 production routes) under + - * /, the six comparisons, &, unary minus and parentheses at every depth; trapping wrappers'
ASSUMPTIONS = ['reference = native tree evaluation with left-to-right error propagation; an error literal aborts the formula with the first literal in evaluation order',
               'unknown names (#NAME? by lookup failure) are C09\'s subject and not used as error sources here',
               'non-error leaves are integers, so every operator above them is defined']

TYPE_NO = {'#NULL!': 1, '#DIV/0!': 2, '#VALUE!': 3, '#REF!': 4, '#NAME?': 5, '#NUM!': 6, '#N/A': 7, '#GETTING_DATA': 8}
IDX = dict((c, i) for i, c in enumerate(CODES8))

GENERIC_ROUTES = ['var', 'cell', 'host-returns', 'host-raises', 'SUM-raises', 'MAX-raises', 'PRODUCT-raises', 'nested-call']
AGGS = ['GEOMEAN', 'HARMEAN', 'MEDIAN', 'VAR', 'STDEV.P', 'AVEDEV', 'MODE', 'AVERAGE', 'MIN', 'AVERAGEA', 'LARGE', 'AND', 'XOR', 'CONCATENATE']      # aggregates whose implementation walks its items (some of them inside library routines that catch exceptions of their own)
SPECIFIC = [('(1/0)', '#DIV/0!', 'operator'), ('(2/(1-1))', '#DIV/0!', 'operator'), ('("q"+1)', '#VALUE!', 'operator'), ('(1-DATE(2019,1,1))', '#NUM!', 'operator'),
            ('NA()', '#N/A', 'builtin-returns'), ('SQRT("q")', '#VALUE!', 'builtin-returns'), ('INDEX({1,2},5)', '#REF!', 'builtin-returns'),
            ('SUM(1/0)', '#DIV/0!', 'SUM-raises'), ('MAX({1,2},NA())', '#N/A', 'MAX-raises'), ('MOD(5,0)', '#DIV/0!', 'builtin-returns'),
            # a divisor that is zero only after conversion (the date with serial 0), an array-length mismatch, a date result before 1900: errors the operators make themselves
            ('SUM({1,1/0})', '#DIV/0!', 'SUM-raises'), ('MAX({1,NA()})', '#N/A', 'MAX-raises'), ('AVERAGE({1,2},{3,1/0})', '#DIV/0!', 'SUM-raises'), ('SUM({1,{2,NA()}})', '#N/A', 'SUM-raises'), ('PRODUCT(v_earr)', '#REF!', 'PRODUCT-raises'),
            ('PRAISE()', '#REF!', 'host-raises'), ('ORAISE(1)', '#NUM!', 'host-raises'),
            ('(1/DATE(1900,1,1))', '#DIV/0!', 'operator'), ('({1,2}+{1,2,3})', '#VALUE!', 'operator'), ('(v_arr*{1,2})', '#VALUE!', 'operator'), ('(DATE(1900,1,5)-10)', '#NUM!', 'operator'), ('(5/"0")', '#DIV/0!', 'operator')]


def source_node(code, route):
    i = IDX[code]
    if route == 'var':
        return ['src', 'v_e%s' % 'abcdefgh'[i], code]
    if route == 'cell':
        return ['src', 'E%d' % (i + 1), code]
    if route == 'host-returns':
        return ['src', 'ERET(%d)' % i, code]
    if route == 'host-raises':
        return ['src', 'ERAISE(%d)' % i, code]
    if route == 'SUM-raises':
        return ['src', 'SUM(1,v_e%s)' % 'abcdefgh'[i], code]
    if route == 'MAX-raises':
        return ['src', 'MAX({1,2},v_e%s)' % 'abcdefgh'[i], code]
    if route == 'PRODUCT-raises':
        return ['src', 'PRODUCT(E%d)' % (i + 1), code]
    if route == 'nested-call':
        return ['src', 'ABS(SUM(ERET(%d)))' % i, code]
    raise ValueError(route)


def agg_node(code, f):
    i = IDX[code]
    return ['src', 'LARGE({4,2},v_e%s)' % 'abcdefgh'[i] if f == 'LARGE' else '%s(4,v_e%s,2)' % (f, 'abcdefgh'[i]), code, 'AGG-raises']


sources = st.one_of(
    st.tuples(st.sampled_from(CODES8), st.sampled_from(AGGS)).map(lambda t: agg_node(*t)),
    st.tuples(st.sampled_from(CODES8), st.sampled_from(GENERIC_ROUTES)).map(lambda t: source_node(*t) + [t[1]]),
    st.sampled_from(SPECIFIC).map(lambda t: ['src', t[0], t[1], t[2]]),
)
literals = st.sampled_from(CODES8).map(lambda c: ['errlit', c])
num_leaf = st.one_of(st.sampled_from(['1', '2', '3', '5', '7', '10', '0']).map(lambda s: ['num', s]), st.sampled_from(['v_a', 'v_b']).map(lambda n: ['var', n]), st.just(['cell', 'B2']),
                     st.sampled_from(['1', '2', '3', '5', '7', '10', '0']).map(lambda s: ['num', s]), st.sampled_from([['str', 'abc', '"'], ['str', 'n/a', '"'], ['str', 'x y', '"']]))      # text that is not a number: #VALUE! under arithmetic, unless the other operand is an error
OPS_ALL = ['+', '-', '*', '/', '+', '-', '*', '/', '=', '<>', '<', '>', '<=', '>=', '&']


array_leaf = st.sampled_from([['arr', [['num', '1'], ['num', '2']]], ['arr', [['num', '5']]], ['var', 'v_arr'], ['range', 'A1', 'B2']])


def leaf_mix(p_src=3, p_lit=0):
    alts = [num_leaf] * 4 + [sources.map(lambda s: s[:3] + ([s[3]] if len(s) > 3 else []))] * p_src + [literals] * p_lit
    return st.one_of(*alts)


def make_env(debug=False, onlookers=False):
    err = errors()
    sing = [err.from_message(c) for c in CODES8]

    def eraise(k):
        raise sing[k]
    vars_ = {'v_a': 4, 'v_b': 9, 'v_arr': [3, 4, 5]}
    cells = {'B2': 6}
    for i, c in enumerate(CODES8):
        vars_['v_e%s' % 'abcdefgh'[i]] = sing[i]
        cells['E%d' % (i + 1)] = sing[i]
    vars_['v_weird'] = err.XLError('#WEIRD')
    vars_['v_earr'] = [1, [2, err.REF], 3]
    import functools

    def raise_code(code):
        raise err.from_message(code)

    class RaisingObject(object):        # a callable object and a functools.partial: host functions that have no __name__
        def __call__(self, *a):
            raise err.NUM
    vars_['v_nan'] = float('nan')
    env = Env(vars=vars_, cells=cells, ranges={'A1:B2': [7, 8]}, funcs={'ERET': lambda k: sing[k], 'ERAISE': eraise, 'ID': lambda x: x, 'HOSTERR': lambda: err.XLError('no such row'),
                                                                           'PRAISE': functools.partial(raise_code, '#REF!'), 'ORAISE': RaisingObject()}, debug=debug)
    if onlookers:
        # somebody listens (a logger, a dependency tracker) and answers nothing: that changes no outcome
        env.P.on('callFunction', lambda name, args, setter: None)
        env.P.on('callVariable', lambda name, setter: None)
        env.P.on('callCellValue', lambda cell, setter: None)
    return env


REF_ENV = {'vars': {'v_a': 4, 'v_b': 9, 'v_arr': [3, 4, 5]}, 'cells': {'B2': 6}, 'ranges': {'A1:B2': [7, 8]}, 'funcs': {}}


def has_error_leaf(t):
    return any(n[0] in ('src', 'errlit') for n in gf.walk(t))


@st.composite
def prop_case(draw):
    with_lit = draw(st.integers(0, 3)) == 0
    t = draw(gf.tree_strategy(leaf_mix(3, 2 if with_lit else 0), ops=OPS_ALL, max_leaves=8))
    if draw(st.integers(0, 9)) == 0:
        # an error object made by the host whose text is no spreadsheet code: it propagates like any error and is reported as #ERROR!
        w = ['src', draw(st.sampled_from(['v_weird', 'ID(v_weird)', 'HOSTERR()'])), '#ERROR!']
        t = ['bin', draw(st.sampled_from(OPS_ALL)), w, t] if draw(st.booleans()) else (['neg', w] if draw(st.booleans()) else w)
    if not has_error_leaf(t):
        t = ['bin', draw(st.sampled_from(OPS_ALL)), t, draw(sources)[:3]] if draw(st.booleans()) else ['bin', draw(st.sampled_from(OPS_ALL)), draw(sources)[:3], t]
    if draw(st.integers(0, 5)) == 0:
        # an array as the other operand of an arithmetic operator whose operand is an error
        src = draw(sources)[:3]
        arr = draw(array_leaf)
        pair = ['bin', draw(st.sampled_from(gf.ARITH)), arr, src] if draw(st.booleans()) else ['bin', draw(st.sampled_from(gf.ARITH)), src, arr]
        t = ['bin', draw(st.sampled_from(gf.ARITH)), ['paren', pair], t] if draw(st.booleans()) else pair
    return {'tree': t, 'style': draw(st.sampled_from(['min', 'full'])), 'debug': draw(st.sampled_from([False, False, True]))}


def reference(t):
    try:
        return gf.ref_eval(t, REF_ENV)
    except gf.Abort as a:
        return ('abort', a.code)


def expect_top(text, r, want, what):
    if isinstance(want, tuple):
        code = want[1]
    elif isinstance(want, Err):
        code = want.code
    else:
        code = None
    if code is not None:
        if r['error'] != code or r['result'] is not None:
            raise Violation('%s %s -> %r, expected error %s with an empty result' % (what, text, r['error'] or r['result'], code), r['error'] or enc(r['result']), code)
    else:
        g = r['result']
        if r['error'] is not None or type(g) != type(want) or g != want:
            raise Violation('%s %s -> %r, expected %r' % (what, text, r['error'] or g, want), r['error'] or enc(g), enc(want))


def check_propagation(case):
    t = case['tree']
    try:
        want = reference(t)
    except Unspecified:
        raise Skip('reference-unspecified')
    text = gf.render(t, case['style'])
    r = make_env(case.get('debug', False), onlookers=len(text) % 2 == 0).parse(text)
    expect_top(text + (' (debug on)' if case.get('debug') else ''), r, want, 'formula')


@st.composite
def trap_case(draw):
    inner_err = draw(st.booleans())
    x = draw(gf.tree_strategy(leaf_mix(3 if inner_err else 0, 0), ops=OPS_ALL, max_leaves=5))
    if inner_err and not has_error_leaf(x):
        x = draw(sources)[:3]
    if draw(st.integers(0, 7)) == 0:
        x = ['bin', '+', x, draw(literals)]
    y = draw(st.one_of(st.sampled_from(['1', '42', '0']).map(lambda s: ['num', s]), st.just(['str', 'alt', '"']), sources.map(lambda s: s[:3])))
    return {'x': x, 'y': y, 'trap': draw(st.sampled_from(['IFERROR', 'IFNA', 'ISERROR', 'ISERR', 'ISNA', 'ERROR.TYPE', 'OR', 'IFERROR', 'ISERROR'])), 'debug': draw(st.sampled_from([False, False, True]))}


def check_trapping(case):
    x, y, trap = case['x'], case['y'], case['trap']
    try:
        xv = reference(x)
        yv = reference(y)
    except Unspecified:
        raise Skip('reference-unspecified')
    X, Y = gf.render(x), gf.render(y)
    if trap in ('IFERROR', 'IFNA'):
        text = '%s(%s,%s)' % (trap, X, Y)
    elif trap == 'OR':
        text = 'OR(ISERR(%s),ISNA(%s))=ISERROR(%s)' % (X, X, X)
    else:
        text = '%s(%s)' % (trap, X)
    r = make_env(case.get('debug', False), onlookers=len(text) % 2 == 0).parse(text)
    if case.get('debug'):
        text += ' (debug on)'
    if isinstance(xv, tuple):
        expect_top(text, r, xv, 'error literal inside')      # a literal aborts the whole formula
        return
    if isinstance(xv, list) or isinstance(yv, list):
        raise Skip('array-valued')      # what the observers do with a whole array is not stated
    is_err = isinstance(xv, Err)
    is_na = is_err and xv.code == '#N/A'
    if trap == 'IFERROR':
        want = yv if is_err else xv
    elif trap == 'IFNA':
        want = yv if is_na else xv
    elif trap == 'ISERROR':
        want = is_err
    elif trap == 'ISERR':
        want = is_err and not is_na
    elif trap == 'ISNA':
        want = is_na
    elif trap == 'OR':
        want = True
    else:
        want = TYPE_NO[xv.code] if is_err else Err('#N/A')
    expect_top(text, r, want, 'x=%s -> %r;' % (X, xv))


def check_code_text(case):
    """a text that merely spells an error code is text, not an error"""
    code, how = case
    env = make_env()
    env.P.set_variable('v_t', code)
    env.cells['T1'] = code
    X = {'lit': '"%s"' % code, 'var': 'v_t', 'cell': 'T1', 'concat': '("%s"&"%s")' % (code[:2], code[2:]), 'call': 'CONCATENATE("%s","%s")' % (code[:1], code[1:])}[how]
    table = [('ISERROR(%s)' % X, False), ('ISERR(%s)' % X, False), ('ISNA(%s)' % X, False), ('IFERROR(%s,42)' % X, code), ('IFNA(%s,42)' % X, code), ('ERROR.TYPE(%s)' % X, Err('#N/A')),
             ('OR(ISERR(%s),ISNA(%s))=ISERROR(%s)' % (X, X, X), True), ('ISTEXT(%s)' % X, True), ('%s&"a"' % X, code + 'a'), ('%s=%s' % (X, X), True)]
    for text, want in table:
        expect_top(text, env.parse(text), want, 'text %r spelling an error code (%s):' % (code, how))
    # a NaN from the host is a number that is not a number; it is no error value, and the observers agree about that
    for text, want in (('ISERROR(v_nan)', False), ('ISERR(v_nan)', False), ('ISNA(v_nan)', False), ('OR(ISERR(v_nan),ISNA(v_nan))=ISERROR(v_nan)', True), ('IFERROR(v_nan,"trapped")&""', 'nan'), ('IFNA(v_nan,"trapped")&""', 'nan')):
        expect_top(text, env.parse(text), want, 'a NaN handed over by the host:')
    # an error operand of & is the result whatever the other operand is - a value that has no text of its own (a host object whose str() raises, an integer
    # of 5000 digits, which the interpreter refuses to spell) included
    class NoText(object):
        def __str__(self):
            raise RuntimeError('no text')
        __repr__ = __str__
    env.P.set_variable('v_obj', NoText())
    env.P.set_variable('v_huge', 10 ** 5000)
    for V in ('v_obj', 'v_huge'):
        for text, want in (('%s&(1/0)' % V, Err('#DIV/0!')), ('(1/0)&%s' % V, Err('#DIV/0!')), ('NA()&%s' % V, Err('#N/A')), ('IFERROR((1/0)&%s,7)' % V, 7), ('ISNA(%s&NA())' % V, True), ('ERROR.TYPE(%s&(1/0))' % V, 2)):
            expect_top(text, env.parse(text), want, 'an error operand of & next to a value that cannot be turned into text:')
    # ISERROR = ISERR or ISNA for every x, an array that holds no error included: the three observers answer it alike (what they answer is theirs to say)
    env.P.set_variable('v_arr', [1, 2])
    env.P.set_variable('v_tab', [[1, 'x'], [None, True]])
    for X in ('{1,2}', 'v_arr', 'v_tab', '{"a",1}', 'IFNA(v_arr,3)'):
        got = [env.parse('%s(%s)' % (fn, X)) for fn in ('ISERROR', 'ISERR', 'ISNA')]
        if len(set(g['error'] for g in got)) != 1:
            raise Violation('x = %s, an array without errors: ISERROR(x), ISERR(x), ISNA(x) -> %r: ISERROR = ISERR or ISNA cannot hold' % (X, got), repr(got), None)
        vals = [g['result'] for g in got]
        if all(isinstance(v, bool) for v in vals) and vals[0] != (vals[1] or vals[2]):
            raise Violation('x = %s: ISERROR(x), ISERR(x), ISNA(x) = %r' % (X, vals), repr(vals), None)


def enum_code_text(tier, shard, nshards):
    i = 0
    for code in CODES8 + ['#ERROR!']:
        for how in ('lit', 'var', 'cell', 'concat', 'call'):
            i += 1
            if i % nshards == shard:
                yield [code, how]


def enum_matrix(tier, shard, nshards):
    """every code x every route, bare and under each trapping function (exhaustive)"""
    i = 0
    for code in CODES8:
        for route in GENERIC_ROUTES:
            i += 1
            if i % nshards == shard:
                yield source_node(code, route) + [route]
    for s in SPECIFIC:
        i += 1
        if i % nshards == shard:
            yield ['src', s[0], s[1], s[2]]
    for code in CODES8 + ['#ERROR!']:
        i += 1
        if i % nshards == shard:
            yield ['errlit', code]


def check_matrix(node):
    env = make_env(debug=(sum(map(ord, repr(node))) % 3 == 0), onlookers=(sum(map(ord, repr(node))) % 2 == 0))       # a third of the matrix with the parser's debug output on
    if node[0] == 'errlit':
        code = node[1]
        for text in (code, '1+' + code, code + '=1', 'IFERROR(%s,1)' % code, 'ISERROR(%s)' % code, '-' + code, '"a"&' + code, 'SUM(1,%s)' % code):
            r = env.parse(text)
            if r['error'] != code or r['result'] is not None:
                raise Violation('error literal: %s -> %r, expected %s' % (text, r['error'] or r['result'], code), r['error'] or enc(r['result']), code)
        return
    X, code = node[1], node[2]
    na = code == '#N/A'
    table = [(X, Err(code)), ('%s+1' % X, Err(code)), ('1*%s' % X, Err(code)), ('%s=1' % X, Err(code)), ('1<%s' % X, Err(code)), ('%s<>%s' % (X, X), Err(code)),
             ('%s>=1' % X, Err(code)), ('1<=%s' % X, Err(code)), ('%s>%s' % (X, X), Err(code)), ('IFERROR(%s>=0,42)' % X, 42), ('ISERROR(1<=%s)' % X, True),
             ('%s&"a"' % X, Err(code)), ('"a"&%s' % X, Err(code)), ('-%s' % X, Err(code)), ('(%s)' % X, Err(code)),
             ('IFERROR(%s,42)' % X, 42), ('IFNA(%s,42)' % X, 42 if na else Err(code)), ('ISERROR(%s)' % X, True), ('ISERR(%s)' % X, not na), ('ISNA(%s)' % X, na),
             ('ERROR.TYPE(%s)' % X, TYPE_NO[code]), ('IFERROR(%s+1,42)' % X, 42), ('{1,2}+%s' % X, Err(code)), ('%s*{1,2}' % X, Err(code)), ('IFERROR({5}-%s,42)' % X, 42), ('ISERROR(%s/v_arr)' % X, True), ('IFERROR(-%s,42)' % X, 42), ('IFERROR(%s=1,42)' % X, 42), ('IFERROR(%s&"a",42)' % X, 42),
             ('ISERROR(ABS(%s))' % X, True), ('IFERROR(IFERROR(%s,%s),7)' % (X, X), 7)]
    for text, want in table:
        r = env.parse(text)
        expect_top(text, r, want, 'source %s (%s, %s):' % (X, code, node[3]))


def routes_of(t):
    out = set()
    for n in gf.walk(t):
        if n[0] == 'src':
            out.add('route:' + (n[3] if len(n) > 3 else 'x'))
        if n[0] == 'errlit':
            out.add('route:literal')
    return out


def prop_classes(case):
    t = case['tree']
    out = set(routes_of(t))
    ops = set(n[1] for n in gf.walk(t) if n[0] == 'bin')
    if ops & set(gf.CMP):
        out.add('under-comparison')
    if '&' in ops:
        out.add('under-amp')
    if any(n[0] == 'neg' for n in gf.walk(t)):
        out.add('under-neg')
    if any(n[0] in ('arr', 'range') or (n[0] == 'var' and n[1] == 'v_arr') for n in gf.walk(t)):
        out.add('array-operand')
    codes = set(n[2] for n in gf.walk(t) if n[0] == 'src')
    if len(codes) >= 2:
        out.add('two-codes')
    return sorted(out)


def prop_key(case):
    t = case['tree']
    for n in gf.walk(t):
        if n[0] == 'bin' and (n[1] in gf.CMP or n[1] == '&') and (has_error_leaf(n[2]) or has_error_leaf(n[3])):
            return 'error-under-comparison-or-amp'
        if n[0] == 'neg' and has_error_leaf(n[1]):
            return 'error-under-neg'
    if any(n[0] == 'src' and 'raises' in n[1] for n in gf.walk(t)):
        return 'raised'
    return ''


def depth_of_error(t, d=0):
    k = t[0]
    if k in ('src', 'errlit'):
        return d
    best = -1
    for c in ([t[1]] if k in ('neg', 'paren') else [t[2], t[3]] if k == 'bin' else [a for a in t[2] if a is not None] if k == 'call' else []):
        best = max(best, depth_of_error(c, d + 1))
    return best


LAWS = [
    Law('matrix', check_matrix, enumerate=enum_matrix, exhaustive=True, shards=(8, 8), weight=lambda n: 31 if n[0] == 'src' else 8,
        rule='every error code x every production route (variable, cell, host function returning / raising, SUM / MAX / PRODUCT raising, nested call; operator- and builtin-made ones), bare, under each operator kind, and under each trapping function; all 9 error literals'),
    Law('code_spelling_text', check_code_text, enumerate=enum_code_text, exhaustive=True, shards=(4, 4), weight=lambda c: 10,
        rule='each of the nine codes as a *text* (literal, variable, cell, produced by & and by CONCATENATE): ISERROR/ISERR/ISNA are FALSE, IFERROR/IFNA keep it, ERROR.TYPE is #N/A, it joins and compares as text; six facts about a NaN variable; the three observers agree on five error-free arrays'),
    Law('propagation', check_propagation, strategy=prop_case(), classes=prop_classes, key=prop_key, quick=4000, thorough=200000, shards=(8, 16),
        required=('under-comparison', 'under-amp', 'under-neg', 'two-codes', 'array-operand', 'route:literal', 'route:host-raises', 'route:SUM-raises', 'route:operator', 'route:var'),
        nontrivial=lambda c: depth_of_error(c['tree']) >= 2 or 'two-codes' in prop_classes(c),
        rule='generated trees (up to 8 leaves) with error sources at generated leaves under + - * / = <> < > <= >= & unary minus and parentheses: the outcome is the reference error (left operand first; first literal in evaluation order) with an empty result; '
             'non-trivial = an error leaf at depth >= 2 or two different codes in one formula'),
    Law('trapping', check_trapping, strategy=trap_case(), quick=4000, thorough=200000, shards=(8, 16),
        classes=lambda c: (c['trap'], 'x-error' if has_error_leaf(c['x']) else 'x-value') + tuple(routes_of(c['x'])), required=('IFERROR', 'IFNA', 'ISERROR', 'ISERR', 'ISNA', 'ERROR.TYPE', 'OR', 'x-error', 'x-value', 'route:host-raises', 'route:SUM-raises'),
        key=lambda c: 'raised' if any(n[0] == 'src' and 'raises' in (n[3] if len(n) > 3 else '') for n in gf.walk(c['x'])) else '',
        nontrivial=lambda c: has_error_leaf(c['x']),
        rule='x = generated tree (with or without error sources), y = alternative: IFERROR(x,y) = y iff x is an error, IFNA for #N/A only, ISERROR/ISERR/ISNA classify, ISERROR = ISERR or ISNA (through OR), ERROR.TYPE = documented number; a literal inside still aborts'),
]

LEVEL_TEXT = 'Exhaustive code x route x operator/trap matrix plus Hypothesis exploration of generated trees with error sources at every depth, against a reference evaluator with left-to-right propagation; trapping functions against their defining equations.'
LEVEL_NOTE = 'Trusted: hx/gen_formula.py ref_eval (propagation rule from the statement).'
TECHNIQUE = 'exhaustive error-source matrix + Hypothesis tree generation against a reference propagation model'
