"""C09 - names resolve to what was registered; unknown names are #NAME?."""
import contextlib
import io
import math
import os
import re

from hypothesis import strategies as st

from .. import gen_formula as gf
from .. import snapshot
from ..env import Env, errors, hot
from ..law import Law, Violation, Skip
from ..values import dec, enc, Opaque

RULE = 'C09: identifier-shaped names (not cell-shaped), values of any Python type, custom functions under any FUNCTION-token name incl. names of built-ins, every documented name, unknown names at every position'
ASSUMPTIONS = ['variable names: letters | letters _ [letters digits _]* | [letters _]+  (what the lexer reads as one VARIABLE token and not as a cell)',
               'object identity of the returned value is recorded, not asserted (a copy would still be "exactly that value"); equality and type are asserted',
               'the documented list is the first section of SUPPORTED_FORMULAS.md in the tree under test']

LET = 'abcdefghijklmnopqrstuvwxyzABCDEFGHIJKLMNOPQRSTUVWXYZ'
var_name = st.one_of(
    st.text(st.sampled_from(LET), min_size=1, max_size=8),
    st.tuples(st.text(st.sampled_from(LET), min_size=1, max_size=4), st.text(st.sampled_from(LET + '0123456789_'), max_size=6)).map(lambda t: t[0] + '_' + t[1]),
    st.text(st.sampled_from(LET + '__'), min_size=1, max_size=8),
    st.sampled_from(['x', 'SUM', 'sum', 'If', 'a_1', 'A_1', '_', '__', 'total_2024', 'e', 'pi', 'True', 'true', 'Null', 'nan', 'inf', 'NaN', 'Infinity', 'infinity', 'INF']),      # (the last six: names that float() would read as numbers)
    st.sampled_from(['TRUE', 'FALSE', 'NULL']),        # the predefined names are variables like any other: a host may bind them anew
)

py_value = st.one_of(
    st.integers(-10 ** 20, 10 ** 20), st.floats(allow_nan=True, allow_infinity=True), st.text(max_size=6), st.booleans(), st.none(),
    st.lists(st.one_of(st.integers(-5, 5), st.text(max_size=2), st.none(), st.lists(st.integers(0, 3), max_size=2)), max_size=4),
    st.tuples(st.integers(0, 9), st.text(max_size=2)).map(lambda t: {'$': 'tup', 'v': list(t)}),
    st.dictionaries(st.text(st.sampled_from('abc'), max_size=2), st.integers(0, 5), max_size=2).map(lambda d: {'$': 'dict', 'v': [[k, v] for k, v in sorted(d.items())]}),
    st.binary(max_size=4).map(lambda b: {'$': 'bytes', 'v': b.decode('latin-1')}),
    st.integers(0, 99).map(lambda n: {'$': 'obj', 'v': n}),
    st.sampled_from(['eqany', 'eqraises', 'elementwise']).map(lambda k: {'$': 'weird', 'v': k}),      # objects whose == is unusual: equal to anything / raising / element-wise
    st.sampled_from(['#N/A', '#DIV/0!', '#NAME?', '#NULL!', '#NUM!', '#REF!', '#VALUE!', '#GETTING_DATA', '#ERROR!']).map(lambda c: {'$': 'err', 'v': c}),
    st.lists(st.integers(0, 3), max_size=3).map(lambda l: {'$': 'set', 'v': sorted(set(l))}),
    # values that cannot be printed (the debug mode must cope: a quarter of the cases run with it on), and values of derived classes
    st.sampled_from([{'$': 'pow', 'v': [7, 6000]}, {'$': 'badrepr', 'v': None}, {'$': 'sub', 'v': ['int', 5]}, {'$': 'sub', 'v': ['float', 2.5]}, {'$': 'sub', 'v': ['str', 'txt']}, {'$': 'sub', 'v': ['list', [1, 2]]}]),
)


def fix_float(spec):
    if isinstance(spec, float) and not math.isfinite(spec):
        return {'$': 'f', 'v': repr(spec)}
    return spec


def same(a, b):
    if a is b:
        return True
    if type(a).__name__ in ('EqAny', 'EqRaises', 'EqElementwise') or type(b).__name__ in ('EqAny', 'EqRaises', 'EqElementwise'):
        return False        # such objects are "exactly that value" only by identity
    if type(a) != type(b):
        return False
    if isinstance(a, float) and math.isnan(a):
        return math.isnan(b)
    if isinstance(a, (list, tuple)):
        return len(a) == len(b) and all(same(x, y) for x, y in zip(a, b))
    return a == b


def is_xlerr(v):
    return isinstance(v, BaseException) and type(v).__name__ == 'XLError'


def sr(v):
    try:
        return repr(v)
    except Exception:
        return '<%s object that cannot be printed>' % type(v).__name__


def check_variable(case):
    name, others = case['name'], case['others']
    value = dec(fix_float(case['value']))
    from ..env import DEBUG_DEFAULT
    P = hot().Parser(debug=bool(DEBUG_DEFAULT[0]))      # (a quarter of the cases with the debug output on; the runner sends it to a buffer)
    others = list(dict((n, v) for n, v in others).items())      # a name is bound once
    for n, v in others:
        if n != name:
            P.set_variable(n, dec(fix_float(v)))
    P.set_variable(name, value)
    passive_listeners(P, case.get('listeners', 0))
    r = P.parse(name)
    if is_xlerr(value):
        if r['error'] != str(value) or r['result'] is not None:
            raise Violation('variable %s = error %s -> %r' % (name, value, r), r['error'] or enc(r['result']), str(value))
    else:
        if r['error'] is not None or not same(r['result'], value):
            raise Violation('variable %s = %s evaluates to %s' % (name, sr(value), r['error'] or sr(r['result'])), r['error'] or enc(r['result']), enc(value))
    # case sensitivity: another spelling of the name is a different (unknown) variable
    alt = name.swapcase()
    if alt != name and alt not in ('TRUE', 'FALSE', 'NULL') and alt not in [n for n, v in others]:
        r2 = P.parse(alt)
        if r2['error'] != '#NAME?' or r2['result'] is not None:
            raise Violation('variable %s is set; %s (other letter case) -> %r, expected #NAME?' % (name, alt, r2), r2['error'] or enc(r2['result']), '#NAME?')
    for n, v in others:
        if n != name:
            rv = P.parse(n)
            v = dec(fix_float(v))
            if is_xlerr(v):
                ok = rv['error'] == str(v)
            else:
                ok = rv['error'] is None and same(rv['result'], v)
            if not ok:
                raise Violation('after setting %s, variable %s = %s evaluates to %s' % (name, n, sr(v), rv['error'] or sr(rv['result'])), rv['error'] or enc(rv['result']), enc(v))


def var_classes(c):
    v = c['value']
    out = [type(dec(fix_float(v))).__name__]
    n = c['name']
    out.append('underscore' if '_' in n else 'letters')
    if n.upper() in ('SUM', 'IF', 'PI', 'E'):
        out.append('builtin-name')
    return out


# ---------------------------------------------------------------- custom functions

BUILTIN_SHADOW = ['SUM', 'IF', 'ERROR.TYPE', 'ABS', 'MAX', 'TRUE', 'CONCATENATE', 'PI', 'LEN', 'NOT']
fn_name = st.one_of(
    st.sampled_from(BUILTIN_SHADOW),
    st.tuples(st.text(st.sampled_from(LET), min_size=1, max_size=4), st.text(st.sampled_from(LET + '0123456789_.'), min_size=1, max_size=6)).map(lambda t: t[0] + t[1]),
    st.text(st.sampled_from(LET + '.'), min_size=1, max_size=8).filter(lambda s: s.strip('.') != '' or len(s) > 0),
    st.sampled_from(['F', 'MY.FUNC', 'f1', 'A1', 'sum', 'Sum', 'x_1', 'my.fn.v2']),
)

ERR_ARGS = [['src', '(1/0)', '#DIV/0!'], ['src', 'NA()', '#N/A'], ['src', '("q"+1)', '#VALUE!'], ['src', '(DATE(1900,1,1)-99999)', '#NUM!'], ['src', 'MATCH(9,{1,2,3},0)', '#N/A'], ['src', 'v_err', '#REF!']]
arg_leaf = st.one_of(st.sampled_from(['1', '2', '3', '5', '10']).map(lambda s: ['num', s]), st.just(['dec', '0.5']), st.just(['str', 'txt', '"']), st.sampled_from(ERR_ARGS),
                     st.sampled_from(['v_a', 'v_b', 'TRUE', 'NULL']).map(lambda n: ['var', n]), st.just(['cell', 'B2']))
arg_tree = gf.tree_strategy(st.one_of(st.sampled_from(['1', '2', '3', '5', '10']).map(lambda s: ['num', s]), st.just(['var', 'v_a']), st.just(['cell', 'B2'])), ops=['+', '-', '*'], max_leaves=3)


@st.composite
def fn_case(draw):
    name = draw(fn_name)
    nsites = draw(st.integers(1, 3))
    sites = []
    for i in range(nsites):
        args = draw(st.lists(st.one_of(arg_leaf, arg_tree), max_size=4))
        sites.append(args)
    shape = draw(st.sampled_from(['plus', 'array', 'nested', 'alone']))
    return {'name': name, 'sites': sites, 'shape': shape, 'ret': draw(st.sampled_from(['int', 'int', 'text', 'list', 'none', 'float', 'bool', 'date', 'tuple', 'emptytext', 'zero', 'nested', 'bigint', 'keyerror'])),
            'callable': draw(st.sampled_from(['function', 'function', 'function', 'empty-mapping', 'zero-length', 'bound-method'])), 'listeners': draw(st.sampled_from([0, 0, 0, 1, 2, 3, 16]))}


REF_ENV = {'vars': {'v_a': 4, 'v_b': 9}, 'cells': {'B2': 6}, 'funcs': {}}


def same_arg(got, want):
    if isinstance(want, gf.Err):        # an argument that evaluated to an error value arrives as that error value
        return is_xlerr(got) and str(got) == want.code
    return same(got, want)


def check_function(case):
    name, sites, shape = case['name'], case['sites'], case['shape']
    calls = []
    import datetime as _dt
    rets = {'int': lambda k: 1000 + k, 'text': lambda k: 'ret%d' % k, 'list': lambda k: [k, 'r'], 'none': lambda k: None, 'float': lambda k: k + 0.25,
            'bool': lambda k: k % 2 == 0, 'date': lambda k: _dt.datetime(2020, 1, 1 + k, 6, 30), 'tuple': lambda k: (k, 'r'), 'emptytext': lambda k: '', 'zero': lambda k: 0,
            'nested': lambda k: [[k, 1], [2, 3]], 'bigint': lambda k: 2 ** 70 + k, 'keyerror': lambda k: None}[case['ret']]

    def recorder(*args):
        k = len(calls)
        calls.append(list(args))
        if case['ret'] == 'keyerror':
            raise KeyError('no row %d in the host table' % k)       # a lookup miss inside the host function: its failure, not a missing registration
        return rets(k)
    if case.get('callable', 'function') != 'function':
        # a host callable that is not a plain function: an instance with __call__ whose truth value is False (an empty mapping / a __len__ of 0), or a bound method
        plain = recorder

        class Empty(dict):
            def __call__(self, *args):
                return plain(*args)

        class Sized(object):
            def __len__(self):
                return 0

            def __call__(self, *args):
                return plain(*args)

            def method(self, *args):
                return plain(*args)
        recorder = {'empty-mapping': Empty(), 'zero-length': Sized(), 'bound-method': Sized().method}[case['callable']]
    if name.upper() in ('NA', 'MATCH', 'DATE'):
        # the error-producing argument texts call these built-ins themselves; under a custom function of that name they would be further call sites
        sites = [[['src', '(1/0)', '#DIV/0!'] if a[0] == 'src' else a for a in args] for args in sites]
    nodes = [['call', name, a] for a in sites]
    numeric = case['ret'] in ('int', 'float', 'bigint', 'zero')
    if shape == 'nested' and len(nodes) >= 2:
        # G(F(..)): the inner call's value must arrive as the outer call's argument
        top = ['call', name, [nodes[0]] + nodes[1][2]]
        order_args = None
    elif shape == 'array':
        top = ['arr', nodes]
    elif shape == 'plus' and numeric:
        top = nodes[0]
        for n in nodes[1:]:
            top = ['bin', '+', top, n]
        top = ['bin', '+', top, ['num', '1']]
    else:
        top = nodes[0]
        nodes = nodes[:1]
    text = gf.render(top)
    env = Env(vars={'v_a': 4, 'v_b': 9, 'v_err': errors().REF}, cells={'B2': 6}, funcs={name: recorder})
    passive_listeners(env.P, case.get('listeners', 0) & 19)
    r = env.parse(text)
    d = 'function %s registered; %s ' % (name, text)
    if case['ret'] == 'keyerror':
        # the registered function was called (once, at the first call site reached) and failed: the formula fails with #ERROR!; no built-in of that name answers instead, nor #NAME?
        if r['error'] != '#ERROR!' or len(calls) != 1:
            raise Violation(d + 'whose host function raises KeyError -> %r after %d calls of it; expected #ERROR! after exactly one call' % (r['error'] or r['result'], len(calls)), r['error'] or enc(r['result']), '#ERROR!')
        return
    if r['error'] is not None:
        raise Violation(d + '-> error %s' % r['error'], r['error'], None)
    # expected call log
    want_calls = []
    if shape == 'nested' and len(nodes) >= 2:
        inner_args = [gf.ref_eval(a, REF_ENV) for a in nodes[0][2]]
        want_calls.append(inner_args)
        want_calls.append([rets(0)] + [gf.ref_eval(a, REF_ENV) for a in nodes[1][2]])
        want_value = rets(1)
    else:
        for n in nodes:
            want_calls.append([gf.ref_eval(a, REF_ENV) for a in n[2]])
        if shape == 'array':
            want_value = [rets(k) for k in range(len(nodes))]
        elif shape == 'plus' and numeric:
            want_value = sum(rets(k) for k in range(len(nodes))) + 1
        else:
            want_value = rets(0)
    if len(calls) != len(want_calls):
        raise Violation(d + 'called the function %d times for %d call sites' % (len(calls), len(want_calls)), len(calls), len(want_calls))
    for k, (got, want) in enumerate(zip(calls, want_calls)):
        if len(got) != len(want) or not all(same_arg(a, b) for a, b in zip(got, want)):
            raise Violation(d + 'call %d received %r, expected %r' % (k, got, want), enc(got), enc(want))
    if not same(r['result'], want_value):
        raise Violation(d + '-> %r, expected %r (the function\'s return value)' % (r['result'], want_value), enc(r['result']), enc(want_value))
    # "the evaluated arguments", values of any Python type: what a variable holds arrives as the very object it is - an object the host compares by identity,
    # one that cannot be copied (a lock), one that can be walked only once (a generator), alone and inside an array argument
    import threading

    class Account(object):
        pass
    objs = {'v_obj': Account(), 'v_lock': threading.Lock(), 'v_gen': (x for x in (1, 2))}
    got = []
    env2 = Env(vars=dict(objs, v_a=4), funcs={name: lambda *a: got.append(a) or 7})
    for V in sorted(objs):
        for text2, pick in (('%s(%s,v_a)' % (name, V), lambda a: a[0]), ('%s(1,{%s,2})' % (name, V), lambda a: a[1][0] if isinstance(a[1], list) and a[1] else None)):
            del got[:]
            r2 = env2.parse(text2)
            if r2['error'] is not None or len(got) != 1 or len(got[0]) != 2 or pick(got[0]) is not objs[V]:
                raise Violation('function %s registered; %s with %s = %s -> %r after %d calls; the function did not receive that very object' % (name, text2, V, type(objs[V]).__name__, r2['error'] or r2['result'], len(got)), None, None)


def fn_classes(c):
    out = ['shape:' + c['shape'], 'sites%d' % len(c['sites'])]
    if c['name'] in BUILTIN_SHADOW:
        out.append('shadows-builtin')
    if '.' in c['name']:
        out.append('dotted')
    return out


# ---------------------------------------------------------------- documented names

def documented():
    d = snapshot.directory()
    p = os.path.join(d, 'SUPPORTED_FORMULAS.md')
    names, count = [], None
    with open(p, encoding='utf-8') as f:
        section = 0
        for line in f:
            if line.startswith('#'):
                section += 1
                if section == 1:
                    m = re.search(r'(\d+)\s*$', line)
                    count = int(m.group(1)) if m else None
                continue
            if section == 1 and line.startswith('* '):
                names.append(line[2:].strip())
    return names, count


def enum_documented(tier, shard, nshards):
    names, count = documented()
    if shard == 0:
        yield ['__count__', count, len(names)]
        for n in ('TRUE', 'FALSE', 'NULL'):
            yield ['__const__', n]
    for i, n in enumerate(names):
        if i % nshards == shard:
            yield ['name', n]


def check_documented(case):
    if case[0] == '__count__':
        if case[1] != case[2] or case[2] == 0:
            raise Violation('SUPPORTED_FORMULAS.md announces %r names and lists %r' % (case[1], case[2]), case[2], case[1])
        return
    P = hot().Parser()
    if case[0] == '__const__':
        r = P.parse(case[1])
        want = {'TRUE': True, 'FALSE': False, 'NULL': None}[case[1]]
        if r['error'] is not None or r['result'] is not want:
            raise Violation('%s -> %r' % (case[1], r), r['error'] or enc(r['result']), enc(want))
        return
    name = case[1]
    from hotxlfp import formulas
    if not formulas.is_supported(name):
        raise Violation('%s is documented as supported but is not in the registry' % name, False, True)
    seen = []
    P.on('callFunction', lambda n, args, setter: seen.append(n))
    for text in ('%s()' % name, '%s(1)' % name, '%s(1,2)' % name, '1+%s(1)' % name):
        del seen[:]
        r = P.parse(text)
        # resolved = the built-in ran (the call event fired) or it failed for a reason of its own (wrong arity, bad argument)
        if r['error'] == '#NAME?' and name not in seen:
            raise Violation('documented function: %s -> #NAME? without the function having been called' % text, '#NAME?', 'resolves')


# ---------------------------------------------------------------- unknown names

free_fn = st.one_of(st.sampled_from(['NOSUCH', 'Undefined.Fn', 'zzq', 'SUMM', 'XLOOKUPP', 'foo.bar', 'q9']),
                    st.text(st.sampled_from('QXZqxz'), min_size=2, max_size=6).map(lambda s: s + 'QQ'))
free_var = st.one_of(st.sampled_from(['nosuch', 'undefined_var', 'Zq', 'truee', 'sum', 'q_9']),
                     st.text(st.sampled_from('qxzQXZ'), min_size=2, max_size=6).map(lambda s: s + '_u'))
POSITIONS = ['alone', 'left', 'right', 'neg', 'arg', 'array', 'iferror', 'nested-unknown', 'deep', 'second-arg', 'if-branch']


@st.composite
def unknown_case(draw):
    is_fn = draw(st.booleans())
    if is_fn:
        args = draw(st.lists(st.one_of(arg_leaf, arg_tree), max_size=4))
        node = ['call', draw(free_fn), args]
    else:
        node = ['var', draw(free_var)]
    return {'node': node, 'pos': draw(st.sampled_from(POSITIONS)), 'op': draw(st.sampled_from(gf.ARITH + gf.CMP + ['&'])), 'ctx': draw(arg_tree), 'listeners': draw(st.sampled_from([0, 0, 0, 1, 2, 3, 15, 16, 19]))}


def embed(node, pos, op, ctx):
    if pos == 'alone':
        return node
    if pos == 'left':
        return ['bin', op, node, ['paren', ctx]]
    if pos == 'right':
        return ['bin', op, ['paren', ctx], node]
    if pos == 'neg':
        return ['neg', node]
    if pos == 'arg':
        return ['call', 'SUM', [ctx, node]]
    if pos == 'second-arg':
        return ['call', 'CONCATENATE', [['str', 'a', '"'], node, ctx]]
    if pos == 'array':
        return ['arr', [ctx, node, ['num', '3']]]
    if pos == 'iferror':
        return ['call', 'IFERROR', [node, ['num', '0']]]
    if pos == 'if-branch':
        return ['call', 'IF', [['var', 'TRUE'], ['num', '1'], node]]
    if pos == 'nested-unknown':
        return ['call', 'OTHERUNKNOWN', [node]]
    return ['bin', '+', ['num', '1'], ['bin', '*', ['num', '2'], ['paren', ['bin', op, ['paren', node], ['num', '3']]]]]


def passive_listeners(P, digest):
    """A host that looks every name up in a table of its own and hands the setter whatever it finds - here nothing (None) - must not change name resolution.
    Registered on some of the four events, chosen by the case."""
    if digest & 16:
        # an observing listener that looks something else up on this very parser while it is being notified, and answers nothing
        busy = []

        def observe(*a):
            if not busy:
                busy.append(1)
                try:
                    P.parse('v_side+SIDE(2)')
                finally:
                    busy.pop()
        P.set_variable('v_side', 0.2)
        P.set_function('SIDE', lambda x: 'CALLED')
        P.on('callVariable', observe)
        P.on('callFunction', observe)
    for bit, kind in enumerate(('callVariable', 'callFunction', 'callCellValue', 'callRangeValue')):
        if digest >> bit & 1:
            if kind == 'callVariable':
                P.on(kind, lambda name, setter: setter({}.get(name)))
            elif kind == 'callFunction':
                P.on(kind, lambda name, args, setter: setter({}.get(name)))
            elif kind == 'callCellValue':
                P.on(kind, lambda cell, setter: setter(None))
            else:
                P.on(kind, lambda start, end, setter: setter(None))


def check_unknown(case):
    t = embed(case['node'], case['pos'], case['op'], case['ctx'])
    text = gf.render(t)
    env = Env(vars={'v_a': 4, 'v_b': 9}, cells={'B2': 6})
    passive_listeners(env.P, case.get('listeners', 0))
    other = ''
    if len(text) % 2 == 0:
        # the name is taken in the *other* table: a variable (holding a callable) named like the called function, a function named like the referenced variable.
        # Functions and variables are separate name spaces: the call, or the reference, is unknown all the same
        node = case['node']
        if node[0] == 'call':
            env.P.set_variable(node[1], lambda *a: 4242)
            other = ' (a variable of that name holds a callable)'
        else:
            env.P.set_function(node[1], lambda *a: 4242)
            other = ' (a custom function of that name is registered)'
    r = env.parse(text)
    if r['error'] != '#NAME?' or r['result'] is not None:
        raise Violation('%s references an unregistered name%s -> %r, expected #NAME? with an empty result' % (text, other, r), r['error'] or enc(r['result']), '#NAME?')


# ---------------------------------------------------------------- other spellings of documented names

def check_case_variant(case):
    name, variant, args = case['name'], case['variant'], case['args']
    if variant == name:
        raise Skip('same-spelling')
    env = Env(vars={'v_a': 4, 'v_b': 9}, cells={'B2': 6})
    texts = ['%s(%s)' % (variant, args), '%s(%s)+1' % (variant, args), '"x"&%s(%s)' % (variant, args)]
    refs = ['%s(%s)' % (name, args), '%s(%s)+1' % (name, args), '"x"&%s(%s)' % (name, args)]
    for t, rt in zip(texts, refs):
        r = env.parse(t)
        if r['error'] == '#NAME?' and r['result'] is None:
            continue            # names are case-sensitive: the other spelling is an unknown function
        w = env.parse(rt)
        from ..values import same_outcome
        if same_outcome(r, w, tol=1e-12):
            continue            # (an implementation that folds case must then behave like the documented name)
        raise Violation('%s -> %r: neither #NAME? nor the outcome of %s (%r)' % (t, r, rt, w), r['error'] or enc(r['result']), '#NAME?')


def enum_case_variants(tier, shard, nshards):
    names, _ = documented()
    i = 0
    for n in names:
        if not any(c.isalpha() for c in n):
            continue
        for variant in (n.lower(), n.capitalize(), n[0].lower() + n[1:], n.swapcase()):
            for args in ('', '1', '1,2', 'v_a,B2'):
                i += 1
                if i % nshards == shard:
                    yield {'name': n, 'variant': variant, 'args': args}


# ---------------------------------------------------------------- registration histories on one parser

hist_fn = st.sampled_from(['SUM', 'ABS', 'MAX', 'LEN', 'F', 'G.H', 'sum'])
hist_var = st.sampled_from(['v_x', 'v_y', 'TRUE', 'rate'])
hist_op = st.one_of(
    st.tuples(st.just('call'), hist_fn, st.sampled_from(['1', '1,2', '-3', 'v_x', '"ab"', ''])),
    st.tuples(st.just('call'), hist_fn, st.sampled_from(['1', '1,2', '-3'])),
    st.tuples(st.just('setf'), hist_fn, st.integers(0, 9)),
    st.tuples(st.just('setv'), hist_var, st.one_of(st.integers(-5, 5), st.just('txt'), st.none(), st.booleans())),
    st.tuples(st.just('var'), hist_var),
    st.tuples(st.just('expr'), st.sampled_from(['SUM(1,2)+ABS(-3)', 'F(1)+1', 'IF(TRUE,v_x,v_y)', 'MAX(v_x,2)&"z"', 'G.H()', 'LEN("abc")*2'])),
).map(list)


def apply_bindings(P, bindings, log):
    for b in bindings:
        if b[0] == 'setf':
            P.set_function(b[1], (lambda *a, k=b[2], n=b[1]: (log.append((n, k, list(a))), 9000 + k)[1]))
        else:
            P.set_variable(b[1], b[2])


def check_reg_history(case):
    from ..values import same_outcome
    P = hot().Parser()
    bindings = []
    log = []
    for step, op in enumerate(case['ops']):
        if op[0] in ('setf', 'setv'):
            bindings.append(op)
            apply_bindings(P, [op], log)
            continue
        text = '%s(%s)' % (op[1], op[2]) if op[0] == 'call' else op[1]
        del log[:]
        got = P.parse(text)
        got_log = list(log)
        F = hot().Parser()
        del log[:]
        apply_bindings(F, bindings, log)
        want = F.parse(text)
        want_log = list(log)
        if not same_outcome(got, want) or got_log != want_log:
            raise Violation('after %r, %s evaluates to %r (custom calls %r); a fresh parser given the same registrations gives %r (custom calls %r)' % (
                case['ops'][:step], text, got, got_log, want, want_log), got['error'] or enc(got['result']), want['error'] or enc(want['result']))


def reg_classes(case):
    out = set()
    called = set()
    for op in case['ops']:
        if op[0] == 'call':
            called.add(op[1])
        if op[0] == 'setf' and op[1] in called:
            out.add('registered-after-first-call')
        if op[0] == 'setf' and op[1] in ('SUM', 'ABS', 'MAX', 'LEN'):
            out.add('shadows-builtin')
    regs = [op[1] for op in case['ops'] if op[0] == 'setf']
    if len(regs) != len(set(regs)):
        out.add('re-registered')
    return sorted(out)


# ---------------------------------------------------------------- a long-lived parser: hundreds of calls, many of them failing

LONG_STEPS = ['GOOD(%d)', 'BAD%d(1)', 'FIXED(%d,2,3)', 'ABS()', 'GOOD(BAD0())', 'nosuch%d', 'GOOD(%d)+FIXED(1)', 'IFERROR(BAD1(),GOOD(%d))', 'NOSUCH(%d)', '1+', 'SUM(GOOD(%d),GOOD(1))', 'FIXED(%d)', 'ABS(1,2,3)', 'GOOD(1/0)']
LONG_EXC = [ValueError, KeyError, ZeroDivisionError, TypeError, IndexError, AttributeError, RuntimeError, OverflowError]


def check_long_lived(case):
    P = hot().Parser(debug=case['debug'])
    log = []
    P.set_function('GOOD', lambda *a: (log.append(list(a)), sum(x for x in a if isinstance(x, int)) * 2)[1])
    P.set_function('FIXED', lambda x: (log.append(['fixed', x]), x + 1)[1])
    for i, E in enumerate(LONG_EXC):
        def bad(*a, E=E):
            raise E('host function failed')
        P.set_function('BAD%d' % i, bad)
    pat = case['pattern']
    for i in range(case['n']):
        t = LONG_STEPS[pat[i % len(pat)]]
        k = i % 7
        text = t.replace('%d', str(k))
        del log[:]
        with contextlib.redirect_stderr(io.StringIO()), contextlib.redirect_stdout(io.StringIO()):
            P.parse(text)
        # the verification probe: two registered functions, exact arguments, exact value
        del log[:]
        ret = P.parse('GOOD(%d,3)+FIXED(%d)' % (i, k))
        want = (i + 3) * 2 + k + 1
        if ret['error'] is not None or ret['result'] != want or log != [[i, 3], ['fixed', k]]:
            raise Violation('on a parser that has evaluated %d formulas (pattern %r, last %r) the registered functions GOOD and FIXED in GOOD(%d,3)+FIXED(%d) were called with %r and the outcome was %r; expected calls [[%d, 3], [\'fixed\', %d]] and the value %d'
                            % (i + 1, [LONG_STEPS[j] for j in pat], text, i, k, log, ret['error'] or ret['result'], i, k, want), ret['error'] or enc(ret['result']), want)


long_case = st.fixed_dictionaries({'n': st.integers(20, 400), 'pattern': st.lists(st.integers(0, len(LONG_STEPS) - 1), min_size=1, max_size=5), 'debug': st.booleans()})


def unknown_key(c):
    return 'unknown-function' if c['node'][0] == 'call' else 'unknown-variable'


LAWS = [
    Law('variable_identity', check_variable, quick=3000, thorough=100000, shards=(8, 16), classes=var_classes,
        strategy=st.fixed_dictionaries({'name': var_name, 'value': py_value, 'others': st.lists(st.tuples(var_name, py_value).map(list), max_size=3), 'listeners': st.sampled_from([0, 0, 0, 1, 3, 15, 16, 17])}),
        required=('int', 'float', 'str', 'bool', 'NoneType', 'list', 'tuple', 'dict', 'bytes', 'Opaque', 'XLError', 'frozenset', 'EqAny', 'EqRaises', 'EqElementwise', 'underscore', 'letters', 'builtin-name'),
        nontrivial=lambda c: not isinstance(c['value'], (int, str)) or isinstance(c['value'], bool) or '_' in c['name'],
        rule='a name of the identifier grammar bound to a value of any Python type (numbers incl. nan/inf and big ints, text, logical, blank, lists, tuples, dicts, bytes, sets, opaque objects, error values) next to up to 3 other variables: '
             'the formula consisting of the name evaluates to exactly that value (error values to their code), other variables are unaffected, the other letter case is #NAME?'),
    Law('custom_function', check_function, strategy=fn_case(), classes=fn_classes, quick=3000, thorough=100000, shards=(8, 16),
        required=('shadows-builtin', 'dotted', 'shape:plus', 'shape:array', 'shape:nested', 'sites2', 'sites3'),
        nontrivial=lambda c: len(c['sites']) >= 2 or c['name'] in BUILTIN_SHADOW,
        rule='a recording function under a FUNCTION-token name (incl. dotted names and names of built-ins) with 1-3 call sites whose arguments are generated trees: one invocation per call site in evaluation order, a host object / a lock / a generator held by a variable arrives as that very object (alone and inside an array argument), '
             'arguments equal to the reference values in order, the call\'s value is the return value (checked by F()+1, {F()}, F(F())), the built-in of the same name is not used'),
    Law('documented_builtins', check_documented, enumerate=enum_documented, exhaustive=True, shards=(4, 4), weight=lambda c: 4 if c[0] == 'name' else 1,
        rule='every name in the first section of SUPPORTED_FORMULAS.md: in the registry, NAME(), NAME(1), NAME(1,2), 1+NAME(1) never #NAME?; the announced count equals the number listed; TRUE, FALSE, NULL predefined'),
    Law('unknown_names', check_unknown, strategy=unknown_case(), key=unknown_key, quick=4000, thorough=150000, shards=(8, 16),
        classes=lambda c: ('pos:' + c['pos'], unknown_key(c)), required=tuple('pos:' + p for p in POSITIONS) + ('unknown-function', 'unknown-variable'),
        nontrivial=lambda c: c['pos'] != 'alone',
        rule='an unregistered variable or a call of an unregistered function (0-4 generated arguments) embedded alone, as either operand of every operator, under unary minus, as a call argument, in an array literal, '
             'inside IFERROR, in an IF branch, nested in another unknown call, or deep in an expression: error = #NAME?, result empty'),
    Law('registration_history', check_reg_history, strategy=st.fixed_dictionaries({'ops': st.lists(hist_op, min_size=2, max_size=12)}), classes=reg_classes, quick=1500, thorough=60000, shards=(8, 16),
        required=('registered-after-first-call', 'shadows-builtin', 're-registered'), key=lambda c: 'registration-history',
        nontrivial=lambda c: 'registered-after-first-call' in reg_classes(c) or 're-registered' in reg_classes(c),
        rule='2-12 operations on one long-lived parser - evaluate a call of a name, register / re-register a custom function under it (also names of built-ins), set variables, evaluate expressions: '
             'every evaluation gives the outcome and the custom-function call log of a fresh parser given the same registrations; non-trivial = a name registered after it was first called, or re-registered'),
    Law('long_lived', check_long_lived, strategy=long_case, quick=100, thorough=3000, shards=(16, 16), weight=lambda c: c['n'],
        classes=lambda c: ('n>=100',) if c['n'] >= 100 else ('n<100',), required=('n>=100',), nontrivial=lambda c: c['n'] >= 65,
        rule='one parser evaluates 20-400 formulas following a repeating pattern of 1-5 of 14 step kinds (custom calls that succeed, custom functions raising each of 8 host exception types, arity mismatches on custom and built-in functions, unknown names, syntax errors, errors as arguments); '
             'after every step GOOD(i,3)+FIXED(k) must call both registered functions once with exactly those arguments and give the exact value; non-trivial = at least 65 steps'),
    Law('case_variants', check_case_variant, enumerate=enum_case_variants, exhaustive=True, shards=(8, 8), weight=lambda c: 3,
        rule='every documented name in lower, capitalised, first-letter-lower and swapped case x 4 argument lists, alone, +1 and under &: the outcome is #NAME? (other spelling = other function) or exactly that of the documented spelling - never a blank or a partial value'),
]

LEVEL_TEXT = 'Hypothesis exploration of name resolution (any identifier-shaped name x any Python value; recording custom functions incl. shadowing built-ins; unknown names at 11 kinds of position; registration histories; one parser over hundreds of mostly failing evaluations) plus an exhaustive sweep of every documented function name.'
LEVEL_NOTE = 'Trusted: the recording host functions and hx/gen_formula.py ref_eval for expected arguments.'
TECHNIQUE = 'Hypothesis property testing with recording callbacks + exhaustive documented-name sweep'
