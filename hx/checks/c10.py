"""C10 - reference events deliver canonical coordinates, once, in evaluation order."""
from hypothesis import strategies as st

from .. import gen_formula as gf
from ..env import hot
from ..law import Law, Violation, Skip
from ..ref import cells as rc
from ..ref.arith import Err, Unspecified
from ..values import enc, same_value

RULE = 'C10: formulas mixing cell, range, variable and call references; labels of any case / $ pattern / column A..XFD and beyond / rows to 1048577; four corner orders; 0-3 listeners per event kind with generated setter sequences'
ASSUMPTIONS = ['expected event list = post-order, left-to-right walk of the generating tree (arguments before their call; a range is one range event and no cell events)',
               'range cells: coordinates must be (min row, min col) / (max row, max col) and each label must re-parse to its own coordinates and markers; which corner\'s markers travel is not stated and not asserted',
               'values flow only into recording calls, array literals, parentheses and = comparisons, so every generated value type is admissible']

KINDS = ['callCellValue', 'callRangeValue', 'callVariable', 'callFunction']
CONSTS = [0, False, '', 7, 'txt', [1, 2], 0.0, True]

cols = st.one_of(st.sampled_from(['A', 'Z', 'AA', 'AZ', 'ZZ', 'AAA', 'XFD', 'XFE', 'ZZZZ', 'b', 'xfd', 'aA']), st.text(st.sampled_from('ABCXYZabz'), min_size=1, max_size=4))
rows = st.one_of(st.sampled_from([1, 9, 10, 1048576, 1048577]), st.integers(1, 3000))


POOL = ['A1', 'B2', 'C3', 'D7', 'b2', '$B$2', 'c$3', '$D7', 'C7', 'A3', 'LOG10', 'ATAN2', 'log10', '$ATAN$2', 'Z1', 'AA3', 'ZZ9', 'AAA9']     # a few labels that come back within one formula (the same cell again, a corner of an earlier range)


@st.composite
def label(draw):
    if draw(st.integers(0, 3)) == 0:
        return draw(st.sampled_from(POOL))
    return ('$' if draw(st.booleans()) else '') + draw(cols) + ('$' if draw(st.booleans()) else '') + str(draw(rows))


cell_leaf = label().map(lambda l: ['cell', l])
@st.composite
def one_line_range(draw):
    col, row = draw(cols), draw(rows)
    if draw(st.booleans()):
        a = ('$' if draw(st.booleans()) else '') + col + ('$' if draw(st.booleans()) else '') + str(row)
        b = ('$' if draw(st.booleans()) else '') + draw(cols) + ('$' if draw(st.booleans()) else '') + str(row)
    else:
        a = ('$' if draw(st.booleans()) else '') + col + ('$' if draw(st.booleans()) else '') + str(row)
        b = ('$' if draw(st.booleans()) else '') + col + ('$' if draw(st.booleans()) else '') + str(draw(rows))
    return ['range', a, b]


@st.composite
def one_cell_range(draw):
    col, row = draw(cols), draw(rows)

    def sp():
        c = col.lower() if draw(st.booleans()) else col
        return ('$' if draw(st.booleans()) else '') + c + ('$' if draw(st.booleans()) else '') + str(row)
    return ['range', sp(), sp()]


range_leaf = st.one_of(st.tuples(label(), label()).map(lambda t: ['range', t[0], t[1]]), one_line_range(), st.tuples(label(), label()).map(lambda t: ['range', t[0], t[1]]), one_cell_range())
var_leaf = st.sampled_from(['v_a', 'v_b', 'v_list', 'TRUE', 'FALSE', 'NULL', 'v_unreg', 'v_zero']).map(lambda n: ['var', n])
num_leaf = st.sampled_from(['1', '2', '5']).map(lambda s: ['num', s])
leaf = st.one_of(cell_leaf, cell_leaf, range_leaf, var_leaf, num_leaf)
scalar_leaf = st.one_of(cell_leaf, var_leaf.filter(lambda n: n[1] != 'v_list'), num_leaf)


def trees():
    def extend(ch):
        return st.one_of(
            st.tuples(st.just('call'), st.sampled_from(['REC', 'REC', 'ID', 'COUNT', 'ISBLANK', 'T', 'ERAISE', 'SUM']), st.lists(ch, min_size=1, max_size=4)).map(
                lambda t: ['call', t[1], t[2][:1] if t[1] in ('ID', 'ISBLANK', 'T', 'ERAISE') else (t[2][:2] + [['var', 'v_err']] if t[1] == 'SUM' else t[2])]),
            st.tuples(st.just('arr'), st.lists(ch, min_size=1, max_size=3)).map(list),
            st.tuples(st.just('paren'), ch).map(list),
            st.tuples(st.just('bin'), st.just('='), scalar_leaf, scalar_leaf).map(list),
        )
    return st.recursive(leaf, extend, max_leaves=8)


template = st.one_of(st.none(), st.none(), st.just('tag'), st.just('tag'), st.integers(0, len(CONSTS) - 1), st.just('nested'))      # 'nested': run a complete evaluation with references and calls on the same parser, hand nothing to the setter
listener = st.lists(template, max_size=3)
listeners = st.fixed_dictionaries(dict((k, st.lists(listener, max_size=3)) for k in KINDS))


@st.composite
def case_s(draw):
    t = draw(trees())
    if not any(n[0] in ('cell', 'range') for n in gf.walk(t)):
        t = ['call', 'REC', [t, draw(cell_leaf), draw(range_leaf)]]
    # a listener that leaves during the first delivery it sees (subscribed with once, or unsubscribing itself), placed ahead of the others of its kind
    transient = dict((k, draw(st.sampled_from(['none', 'none', 'none', 'once', 'selfoff']))) for k in KINDS)
    # the host has variables whose names happen to be spelled like the cell labels of the formula (x1 = ..., q4 = ...): such a spelling is a cell reference all the same
    return {'tree': t, 'listeners': draw(listeners), 'transient': transient, 'shadow': draw(st.integers(0, 3)) == 0}


VARS = {'v_a': 41, 'v_b': 'bee', 'v_list': [3, 4], 'v_zero': 0, 'v_err': Err('#NUM!')}


def final_value(templates_by_listener, tag, default):
    v = default
    for tpl in templates_by_listener:
        for t in tpl:
            if t is None or t == 'nested':
                continue
            v = tag if t == 'tag' else CONSTS[t]
    return v


def cell_tag(ri, ci):
    return ri * 1000 + ci + 1


def expected(tree, L):
    """-> (event list, value) by a post-order walk; events are (kind, payload...)"""
    events = []

    def ev(n):
        k = n[0]
        if k == 'num':
            return int(n[1])
        if k == 'paren':
            return ev(n[1])
        if k == 'cell':
            ri, ci, ra, ca = rc.parse_label(n[1])
            events.append(('callCellValue', n[1].upper(), ri, ci, ra, ca))
            return final_value(L['callCellValue'], cell_tag(ri, ci), None)
        if k == 'range':
            a, b = rc.parse_label(n[1]), rc.parse_label(n[2])
            r0, r1 = min(a[0], b[0]), max(a[0], b[0])
            c0, c1 = min(a[1], b[1]), max(a[1], b[1])
            written = None
            if a[0] <= b[0] and a[1] <= b[1]:
                written = (n[1].upper(), n[2].upper())      # already top-left:bottom-right: nothing to normalise
            events.append(('callRangeValue', r0, c0, r1, c1, written))
            return final_value(L['callRangeValue'], [r0, c0, r1, c1], None)
        if k == 'var':
            name = n[1]
            events.append(('callVariable', name))
            base = {'TRUE': True, 'FALSE': False, 'NULL': None}.get(name, VARS.get(name, 'unbound'))
            v = final_value(L['callVariable'], 'var:' + name, base)
            if v == 'unbound' and base == 'unbound':
                raise NameAbort()
            return v
        if k == 'arr':
            return [ev(a) for a in n[1]]
        if k == 'bin':
            l = ev(n[2])
            r = ev(n[3])
            from ..ref import order as ro
            if isinstance(l, Err):
                return l
            if isinstance(r, Err):
                return r
            if isinstance(l, list) or isinstance(r, list):
                raise Unspecified('list compare')
            try:
                return ro.compare(l, r) == 0
            except ro.Ambiguous:
                raise Unspecified('text')
        if k == 'call':
            args = [ev(a) for a in n[2]]
            name = n[1]
            if name == 'REC':
                base = ('rec', len([e for e in events if e[0] == 'callFunction' and e[1] == 'REC']))
            elif name == 'ID':
                base = args[0]
            elif name == 'COUNT':
                base = len(flat(args))
            elif name == 'ISBLANK':
                base = args[0] is None
            elif name == 'ERAISE':
                base = Err('#REF!')          # the host function raises the error object
            elif name == 'SUM':
                errs = [x for x in flat(args) if isinstance(x, Err)]
                # the aggregate raises the first error among its items; without one (a listener replaced it) it adds the numbers
                base = errs[0] if errs else sum((9000 + x[1]) if isinstance(x, tuple) else x for x in flat(args) if isinstance(x, (int, float, tuple)))
            else:   # T
                base = args[0] if isinstance(args[0], (str, Err)) else ''
            events.append(('callFunction', name, args))
            return final_value(L['callFunction'], 'fn:' + name, base)
        raise ValueError(n)
    try:
        v = ev(tree)
    except NameAbort:
        return events, Err('#NAME?')
    return events, v


class NameAbort(Exception):
    pass


def flat(x):
    out = []
    for e in x:
        if isinstance(e, list):
            out.extend(flat(e))
        else:
            out.append(e)
    return out


def resolve(v, rec_ids):
    """replace ('rec', k) placeholders by the recorder's k-th return value and reference errors by the library's error objects"""
    if isinstance(v, tuple) and v and v[0] == 'rec':
        return 9000 + v[1]
    if isinstance(v, Err):
        from ..env import errors
        return errors().from_message(v.code)
    if isinstance(v, list):
        return [resolve(x, rec_ids) for x in v]
    return v


def error_valued_cells():
    """A listener may hand over an error object for a cell (the sheet holds #N/A there): it is the value of that reference, no more.  The references and
    calls to its right raise their events as ever, and the trapping functions see it."""
    from ..env import errors as _errors
    Q = hot().Parser()
    seen = []
    table = {'A1': _errors().NOT_AVAILABLE, 'B1': 7, 'C1': 5, 'D1': _errors().DIV_ZERO}

    def cell_l(cell, setter):
        seen.append(cell.label)
        setter(table.get(cell.label))
    Q.on('callCellValue', cell_l)
    Q.on('callFunction', lambda name, args, setter: seen.append(name))
    for f, events, want in (('IFERROR(A1,B1)+C1', ['A1', 'B1', 'IFERROR', 'C1'], {'result': 12, 'error': None}), ('ISNA(A1)&C1', ['A1', 'ISNA', 'C1'], {'result': 'True5', 'error': None}),
                            ('IF(ISERROR(D1),B1,C1)', ['D1', 'ISERROR', 'B1', 'C1', 'IF'], {'result': 7, 'error': None}), ('A1+B1', ['A1', 'B1'], {'result': None, 'error': '#N/A'}),
                            ('SUM(B1,IFERROR(D1,1),C1)', ['B1', 'D1', 'IFERROR', 'C1', 'SUM'], {'result': 13, 'error': None})):
        del seen[:]
        r = Q.parse(f)
        if seen != events or r != want:
            raise Violation('a cell listener hands over #N/A for A1, #DIV/0! for D1, 7 for B1, 5 for C1: %s raised the events %r and gave %r; expected the events %r and %r' % (f, seen, r, events, want), [seen, r['error'] or enc(r['result'])], [events, want['error'] or want['result']])


def check(case):
    tree, L = case['tree'], case['listeners']
    try:
        want_events, want_value = expected(tree, L)
    except Unspecified:
        raise Skip('reference-unspecified')
    P = hot().Parser()
    for k, v in VARS.items():
        if k != 'v_err':
            P.set_variable(k, v)
    if case.get('shadow'):
        for n in gf.walk(tree):
            if n[0] == 'cell':
                for name in (n[1], n[1].upper(), n[1].replace('$', '')):
                    P.set_variable(name, 'a variable named %s' % name)
    log = []
    kept = []
    rec_calls = []

    def rec(*args):
        rec_calls.append(list(args))
        return 9000 + len(rec_calls) - 1
    P.set_function('REC', rec)
    class Ident(list):
        # a host function that is a callable container (a call recorder): empty, hence falsy, until it has been called
        def __call__(self, x):
            self.append(1)
            return x
    P.set_function('ID', Ident())
    from ..env import errors as _errors

    def eraise(*a):
        raise _errors().REF
    P.set_function('ERAISE', eraise)
    P.set_variable('v_err', _errors().NUM)
    problems = []

    state = {'nested': False}

    def nested():
        # a complete evaluation on the same parser, with references and a call of its own (whose events the listeners let pass)
        state['nested'] = True
        try:
            r = P.parse('SUM(1,v_a)+LEN("ab")')
        finally:
            state['nested'] = False
        if r != {'result': 44, 'error': None}:
            problems.append('a listener evaluating SUM(1,v_a)+LEN("ab") on the same parser got %r' % (r,))

    def mk(kind, idx, tpl):
        def cell_l(cell, setter):
            if state['nested']:
                return
            lab = cell.label
            try:
                parts = tuple(cell)
                r_, c_ = cell
            except Exception as e:
                parts, r_, c_ = repr(e), None, None
            if r_ is not cell.row or c_ is not cell.col or len(parts) != 2 or parts[0] is not cell.row or cell[0] is not cell.row or cell[1] is not cell.col:
                problems.append('the cell %s handed to a listener unpacks to %r, not to its (row, column) parts' % (lab, parts))
            log.append((idx, kind, lab, cell.row.index, cell.col.index, cell.row.is_absolute, cell.col.is_absolute))
            kept.append((cell, (lab, cell.row.index, cell.col.index, cell.row.is_absolute, cell.col.is_absolute)))
            for t in tpl:
                if t == 'nested':
                    nested()
                    continue
                setter(None if t is None else (cell_tag(cell.row.index, cell.col.index) if t == 'tag' else CONSTS[t]))

        def range_l(start, end, setter):
            if state['nested']:
                return
            log.append((idx, kind, start.row.index, start.col.index, end.row.index, end.col.index, (start.label, end.label)))
            for c in (start, end):
                kept.append((c, (c.label, c.row.index, c.col.index, c.row.is_absolute, c.col.is_absolute)))
            for c, nm in ((start, 'start'), (end, 'end')):
                p = rc.parse_label(c.label) if isinstance(c.label, str) else None
                if p is None or p != (c.row.index, c.col.index, c.row.is_absolute, c.col.is_absolute):
                    problems.append('range %s cell has label %r but coordinates row=%r col=%r markers=%r/%r' % (nm, c.label, c.row.index, c.col.index, c.row.is_absolute, c.col.is_absolute))
                elif c.label != c.label.upper():
                    problems.append('range %s label %r is not upper case' % (nm, c.label))
            for t in tpl:
                if t == 'nested':
                    nested()
                    continue
                setter(None if t is None else ([start.row.index, start.col.index, end.row.index, end.col.index] if t == 'tag' else CONSTS[t]))

        def var_l(name, setter):
            if state['nested']:
                return
            log.append((idx, kind, name))
            for t in tpl:
                if t == 'nested':
                    nested()
                    continue
                setter(None if t is None else ('var:' + name if t == 'tag' else CONSTS[t]))

        def func_l(name, args, setter):
            if state['nested']:
                return
            log.append((idx, kind, name, list(args)))
            for t in tpl:
                if t == 'nested':
                    nested()
                    continue
                setter(None if t is None else ('fn:' + name if t == 'tag' else CONSTS[t]))
        fn = {'callCellValue': cell_l, 'callRangeValue': range_l, 'callVariable': var_l, 'callFunction': func_l}[kind]
        if idx % 2 == 0:
            # what a listener returns is nobody's business: every other one returns False ("not mine", in the idiom `label in table and setter(...)`)
            def returning_false(*a):
                fn(*a)
                return False
            return returning_false
        return fn
    transient_calls = dict((k, 0) for k in KINDS)
    holder = {}
    for kind in KINDS:
        how = case.get('transient', {}).get(kind, 'none')
        if how == 'once':
            def cb(*a, kind=kind):
                if not state['nested']:
                    transient_calls[kind] += 1
            P.once(kind, cb)
        elif how == 'selfoff':
            def cb2(*a, kind=kind):
                if state['nested']:
                    return
                transient_calls[kind] += 1
                P.off(kind, holder[kind])
            holder[kind] = cb2
            P.on(kind, cb2)
    class HostObject(object):
        # listeners are bound methods of host objects: every attribute access yields a new method object that is equal to, but not the same as, the one subscribed
        def __init__(self, fn):
            self.fn = fn

        def handle(self, *a):
            return self.fn(*a)
    hosts = []
    for kind in KINDS:
        for idx, tpl in enumerate(L[kind]):
            h = HostObject(mk(kind, idx, tpl))
            hosts.append((kind, h))
            P.on(kind, h.handle)
    text = gf.render(tree)
    r = P.parse(text)
    d = '%s with listeners %r: ' % (text, L)
    for c, was in kept:
        now = (c.label, c.row.index, c.col.index, c.row.is_absolute, c.col.is_absolute)
        if now != was:
            problems.append('a cell object a listener was handed for %s reads %s once the evaluation is over (a listener that keeps what it is handed sees another reference)' % (was[0], now[0]))
            break
    if problems:
        raise Violation(d + problems[0], problems[0], None)
    error_valued_cells()
    # expected log: each event once per listener of its kind, listeners in subscription order
    want_log = []
    for e in want_events:
        for idx in range(len(L[e[0]])):
            if e[0] == 'callFunction':
                want_log.append((idx, e[0], e[1], resolve(e[2], None)))
            else:
                want_log.append((idx, e[0]) + tuple(e[1:]))
    if len(log) != len(want_log):
        raise Violation(d + '%d listener calls, expected %d: %r vs %r' % (len(log), len(want_log), log[:8], want_log[:8]), enc(log[:12]), enc(want_log[:12]))
    for i, (g, w) in enumerate(zip(log, want_log)):
        if g[1] == 'callRangeValue':
            # labels: asserted only when the corners were written in order (then the cells are the written ones)
            if w[6] is None:
                g, w = g[:6], w[:6]
            elif tuple(g[6]) != tuple(w[6]):
                raise Violation(d + 'the range was written top-left:bottom-right as %s:%s but its cells are delivered as %s:%s' % (w[6][0], w[6][1], g[6][0], g[6][1]), list(g[6]), list(w[6]))
            else:
                g, w = g[:6], w[:6]
        ok = g[:3] == w[:3] and (same_value(list(g[3:]), list(w[3:])))
        if not ok:
            raise Violation(d + 'listener call %d is %r, expected %r' % (i, g, w), enc(list(g)), enc(list(w)))
    if isinstance(want_value, Err):
        if r['error'] != want_value.code:
            raise Violation(d + '-> %r, expected %s' % (r['error'] or r['result'], want_value.code), r['error'] or enc(r['result']), want_value.code)
        want_value = None
    want_value = resolve(want_value, None)
    if (r['error'] is not None and want_value is not None) or not same_value(r['result'], want_value):
        raise Violation(d + '-> %r, expected %r (last non-None value handed to the setter wins)' % (r['error'] or r['result'], want_value), r['error'] or enc(r['result']), enc(want_value))
    # the recorder saw the reference values
    want_rec = [resolve(e[2], None) for e in want_events if e[0] == 'callFunction' and e[1] == 'REC']
    if not same_value(rec_calls, want_rec):
        raise Violation(d + 'REC received %r, expected %r' % (rec_calls, want_rec), enc(rec_calls), enc(want_rec))
    # second phase: every listener unsubscribed, the same formula once more on the same parser: nobody is called, cells and ranges are blank
    if len(text) % 2:
        for kind in KINDS:
            P.off(kind)
    else:
        # ... one by one, the way a host detaches its handlers: by naming the method again
        for kind, h in hosts:
            P.off(kind, h.handle)
        for kind in KINDS:
            if case.get('transient', {}).get(kind, 'none') != 'none':
                P.off(kind)
    none = dict((k, []) for k in KINDS)
    try:
        want_events2, want2 = expected(tree, none)
    except Unspecified:
        return
    del log[:]
    del rec_calls[:]
    r2 = P.parse(text)
    d2 = '%s evaluated again after all listeners (%r) were unsubscribed: ' % (text, dict((k, len(v)) for k, v in L.items()))
    if log:
        raise Violation(d2 + 'unsubscribed listeners were still called: %r' % (log[:6],), enc(log[:6]), [])
    if isinstance(want2, Err):
        if r2['error'] != want2.code:
            raise Violation(d2 + '-> %r, expected %s' % (r2['error'] or r2['result'], want2.code), r2['error'] or enc(r2['result']), want2.code)
        return
    want2 = resolve(want2, None)
    if r2['error'] is not None or not same_value(r2['result'], want2):
        raise Violation(d2 + '-> %r, expected %r (references without a listener are blank)' % (r2['error'] or r2['result'], want2), r2['error'] or enc(r2['result']), enc(want2))


def classes(case):
    return sorted(set(_classes(case)) | set('transient:' + v for v in case.get('transient', {}).values() if v != 'none'))


def _classes(case):
    t, L = case['tree'], case['listeners']
    out = set()
    for n in gf.walk(t):
        if n[0] == 'range':
            a, b = rc.parse_label(n[1]), rc.parse_label(n[2])
            if a[0] > b[0] or a[1] > b[1]:
                out.add('range-reversed')
            if a[0] > b[0] and a[1] < b[1] or a[0] < b[0] and a[1] > b[1]:
                out.add('range-anti-diagonal')
            if (a[0] == b[0] or a[1] == b[1]) and ('$' in n[1]) != ('$' in n[2]):
                out.add('range-one-line-mixed-markers')
            if '$' in n[1] + n[2]:
                out.add('range-absolute')
        if n[0] == 'call' and n[1] in ('ERAISE', 'SUM'):
            out.add('call-raises-error')
        if n[0] == 'cell':
            if n[1] != n[1].upper():
                out.add('cell-lower')
            if '$' in n[1]:
                out.add('cell-absolute')
            p = rc.parse_label(n[1])
            if p[1] > 16383 or p[0] >= 1048576:
                out.add('beyond-xfd-or-1048576')
    for k in KINDS:
        if len(L[k]) >= 2:
            out.add('multi-listener')
        last = None
        for tpl in L[k]:
            for tt in tpl:
                if tt is not None and tt != 'nested':
                    last = tt
        if any('nested' in tpl for tpl in L[k]):
            out.add('nested-evaluation-in-listener')
        if last is not None and last not in ('tag', 'nested') and not CONSTS[last] and CONSTS[last] is not None:
            out.add('falsy-final:' + k)
        if any(tpl and tpl[-1] is None and any(x is not None for x in tpl) for tpl in L[k]):
            out.add('none-after-value')
    ev_kinds = set()
    try:
        evs, _ = expected(t, L)
        ev_kinds = set(e[0] for e in evs)
        if len(evs) >= 3 and len(ev_kinds) >= 2:
            out.add('events>=3-of-2-kinds')
    except Exception:
        pass
    return sorted(out)


def key(case):
    for n in gf.walk(case['tree']):
        if n[0] == 'range':
            a, b = rc.parse_label(n[1]), rc.parse_label(n[2])
            if a[0] > b[0] or a[1] > b[1]:
                return 'range-corners-not-normalised'
    return ''


LAWS = [
    Law('events', check, strategy=case_s(), classes=classes, key=key, quick=5000, thorough=200000, shards=(16, 16),
        required=('range-reversed', 'range-anti-diagonal', 'range-absolute', 'cell-lower', 'cell-absolute', 'beyond-xfd-or-1048576', 'multi-listener',
                  'falsy-final:callCellValue', 'falsy-final:callRangeValue', 'falsy-final:callVariable', 'falsy-final:callFunction', 'none-after-value', 'events>=3-of-2-kinds', 'call-raises-error', 'range-one-line-mixed-markers', 'nested-evaluation-in-listener', 'transient:once', 'transient:selfoff'),
        nontrivial=lambda c: bool(set(classes(c)) & set(['events>=3-of-2-kinds', 'range-reversed'])) or any(x.startswith('falsy-final') for x in classes(c)),
        rule='generated tree of cell / range / variable references, recording and built-in calls (incl. a host function and an aggregate that report an error by raising it), array literals and = comparisons; 0-3 listeners per event kind, each handing 0-3 values (None, a tag derived from the reference, or a constant incl. 0, FALSE, "", a list) to the setter, or running a complete evaluation on the same parser in between; per kind optionally one more listener, subscribed first, that leaves during the first delivery it sees (once, or unsubscribing itself): '
             'the listener call log equals the post-order walk (each listener once per event, subscription order) with canonical payloads (upper-cased label, zero-based row/column, markers; normalised range corners whose labels re-parse to their coordinates); '
             'call arguments and the formula value follow the "last non-None value wins, else blank / registered value" rule; after that every listener is unsubscribed and the formula evaluated once more: nobody is called and references are blank; non-trivial = at least 3 events of 2 kinds, a range with unordered corners, or a falsy final setter value'),
]

LEVEL_TEXT = 'Hypothesis exploration with recording listeners: the complete listener call log (order, multiplicity, payloads) and the data flow of setter values are compared with a post-order reference walk of the generating tree, over labels of every case / marker pattern / column width and all corner orders.'
LEVEL_NOTE = 'Trusted: hx/ref/cells.py for coordinates, the reference walk in hx/checks/c10.py.'
TECHNIQUE = 'Hypothesis property testing with recording callbacks against a reference event model (post-order walk)'
