"""C11 - aggregates equal their definitions over exactly the selected items."""
import math
import re
from fractions import Fraction

from hypothesis import strategies as st

from ..env import Env, lit, NoLiteral
from ..values import same_value, same_outcome
from ..law import Law, Violation, Skip
from ..values import dec, enc, err, CODES8

RULE = 'C11: non-empty lists of 1-40 integers / dyadic / decimal numbers partitioned into scalar, array and nested-array arguments and permuted; criteria of the three documented forms over equal-length ranges'
ASSUMPTIONS = ['definitions evaluated in exact Fraction arithmetic on the doubles\' exact values; compared exactly when the result is an integer or dyadic rational that Python computes exactly, else within 1e-9 of the result plus 1e-12 of the magnitude of the data (squared for variances)',
               'MODE: any value of maximal multiplicity is accepted',
               'SUMIF/COUNTIF in the two-argument form the test-suite pins (the items are their own criteria cells); AVERAGEIF in both forms; *IFS with flat ranges',
               'operator criteria are applied to numeric cells, bare-text criteria to lower-case text cells (case rules are not stated), wildcard criteria to lower-case text cells and to ranges that mix them with numbers',
               'SLOPE in the flat form SLOPE(y1..yn, x1..xn) with xs not all equal']

F = Fraction


def fr(x):
    return F(x)


# ---------------------------------------------------------------- reference statistics

def r_sum(xs): return sum(map(fr, xs), F(0))
def r_mean(xs): return r_sum(xs) / len(xs)


def r_product(xs):
    p = F(1)
    for x in xs:
        p *= fr(x)
    return p


def r_median(xs):
    s = sorted(map(fr, xs))
    n = len(s)
    return s[n // 2] if n % 2 else (s[n // 2 - 1] + s[n // 2]) / 2


def r_var(xs, sample):
    m = r_mean(xs)
    ss = sum((fr(x) - m) ** 2 for x in xs)
    return ss / (len(xs) - 1 if sample else len(xs))


def r_avedev(xs):
    m = r_mean(xs)
    return sum(abs(fr(x) - m) for x in xs) / len(xs)


def r_slope(ys, xs):
    mx, my = r_mean(xs), r_mean(ys)
    den = sum((fr(x) - mx) ** 2 for x in xs)
    return sum((fr(x) - mx) * (fr(y) - my) for x, y in zip(xs, ys)) / den


def close(g, want, rel=1e-9, scale=1.0):
    """g: number returned; want: Fraction or float.  Exact agreement, or within rel of the result plus 1e-12 of the
    magnitude `scale` of the data (floating-point sums of large items cannot do better than an ulp of the items)"""
    if isinstance(g, bool) or not isinstance(g, (int, float)) or (isinstance(g, float) and not math.isfinite(g)):
        return False
    if isinstance(want, Fraction):
        if F(g) == want:
            return True
        w = float(want)
    else:
        w = want
    return abs(g - w) <= rel * max(abs(g), abs(w)) + 1e-12 * scale


# ---------------------------------------------------------------- generators

def number_list(positive=False, max_size=40):
    ints = st.integers(1 if positive else -1000, 1000)
    dyadic = st.tuples(st.integers(1 if positive else -8000, 8000), st.sampled_from([4, 8])).map(lambda t: t[0] / float(t[1]))
    decim = st.tuples(st.integers(1 if positive else -100000, 100000), st.just(100)).map(lambda t: t[0] / 100.0)
    small = st.integers(1 if positive else -5, 5)
    elem = st.one_of(ints, dyadic, decim, small, small)
    big = st.integers(10 ** 8, 10 ** 9) if positive else st.one_of(st.integers(10 ** 8, 10 ** 9), st.integers(-10 ** 9, -10 ** 8))
    bigf = st.integers(10 ** 10, 10 ** 11).map(lambda k: k / 1024.0)
    tiny = st.integers(1, 10 ** 6).map(lambda k: k / 1e15)
    homog = st.one_of(st.lists(ints, min_size=1, max_size=max_size), st.lists(dyadic, min_size=1, max_size=max_size),
                      st.lists(small, min_size=1, max_size=max_size), st.lists(elem, min_size=1, max_size=max_size),
                      # magnitudes far from 1: intermediate products / sums of squares leave the comfortable range although the statistic itself is ordinary
                      st.lists(big, min_size=20, max_size=max_size), st.lists(bigf, min_size=20, max_size=max_size), st.lists(tiny, min_size=20, max_size=max_size))
    return homog


def regroup(draw, items):
    args = []
    i = 0
    while i < len(items):
        k = draw(st.integers(1, 6))
        chunk = items[i:i + k]
        i += k
        shape = draw(st.integers(0, 3))
        if shape == 0 and len(chunk) == 1:
            args.append(chunk[0])
        elif shape == 1 and len(chunk) >= 2:
            j = draw(st.integers(1, len(chunk) - 1))
            args.append(list(chunk[:j]) + [list(chunk[j:])])
        elif shape == 2 and len(chunk) >= 3:
            args.append([[chunk[0]], list(chunk[1:])])
        else:
            args.append(list(chunk))
    return args


def flat(x):
    out = []
    for e in x:
        if isinstance(e, list):
            out.extend(flat(e))
        else:
            out.append(e)
    return out


def bind(args, how, kw, prefix='a'):
    """spell each argument as variable, literal or range; returns the argument texts"""
    names = []
    for i, a in enumerate(args):
        h = how[i % len(how)]
        if h == 'lit':
            try:
                names.append(lit(a))
                continue
            except NoLiteral:
                h = 'var'
        if h == 'range' and isinstance(a, list):
            label = '%s%d:%s%d' % ('BCDEFGHIJKLMNOPQRSTU'[i % 20], 2, 'BCDEFGHIJKLMNOPQRSTU'[i % 20], 60)
            kw.setdefault('ranges', {})[label] = dec(a)
            names.append(label)
            continue
        n = 'v_%s%s' % (prefix, 'abcdefghijklmnopqrstuvwxyz'[i % 26] + ('x' * (i // 26)))
        v = dec(a)
        if h == 'tup' and isinstance(v, list):
            v = tuple(tuple(x) if isinstance(x, list) else x for x in v)        # the host hands the range over as a tuple (of tuples): a sequence like any other
        kw.setdefault('vars', {})[n] = v
        names.append(n)
    return names


@st.composite
def stats_case(draw):
    positive = draw(st.booleans())
    items = draw(number_list(positive))
    perm = draw(st.permutations(items))
    return {'items': items, 'args': regroup(draw, items), 'perm_args': regroup(draw, list(perm)),
            'how': draw(st.lists(st.sampled_from(['var', 'lit', 'range']), min_size=1, max_size=3)), 'k': draw(st.integers(1, len(items))), 'derived': draw(st.integers(0, 4)) == 0}


STATS = ['SUM', 'PRODUCT', 'AVERAGE', 'MIN', 'MAX', 'COUNT', 'MEDIAN', 'MODE', 'VAR', 'VAR.S', 'VARP', 'VAR.P', 'STDEV', 'STDEV.S', 'STDEVP', 'STDEV.P', 'AVEDEV', 'GEOMEAN', 'HARMEAN']


def reference(name, xs):
    n = len(xs)
    if name == 'SUM': return r_sum(xs)
    if name == 'PRODUCT': return r_product(xs)
    if name == 'AVERAGE': return r_mean(xs)
    if name == 'MIN': return min(map(fr, xs))
    if name == 'MAX': return max(map(fr, xs))
    if name == 'COUNT': return F(n)
    if name == 'MEDIAN': return r_median(xs)
    if name in ('VAR', 'VAR.S'): return r_var(xs, True) if n >= 2 else None
    if name in ('VARP', 'VAR.P'): return r_var(xs, False)
    if name in ('STDEV', 'STDEV.S'): return math.sqrt(r_var(xs, True)) if n >= 2 else None
    if name in ('STDEVP', 'STDEV.P'): return math.sqrt(r_var(xs, False))
    if name == 'AVEDEV': return r_avedev(xs)
    if name == 'GEOMEAN':
        if any(x <= 0 for x in xs): return None
        return math.exp(sum(math.log(x) for x in xs) / n)
    if name == 'HARMEAN':
        if any(x <= 0 for x in xs): return None
        return n / sum(1 / fr(x) for x in xs)
    raise KeyError(name)


def derive_classes(v):
    # the same numbers as instances of classes that merely derive from int / float (IntEnum members, numpy-style scalars are such values)
    from ..values import SubInt, SubFloat
    if isinstance(v, list):
        return [derive_classes(x) for x in v]
    if isinstance(v, bool) or v is None:
        return v
    if isinstance(v, int):
        return SubInt(v)
    if isinstance(v, float):
        return SubFloat(v)
    return v


def check_stats(case):
    items = case['items']
    kw1, kw2 = {}, {}
    A1 = ','.join(bind(case['args'], case['how'], kw1))
    A2 = ','.join(bind(case['perm_args'], case['how'][::-1], kw2))
    if case.get('derived'):
        for kw in (kw1, kw2):
            for group in ('vars', 'ranges', 'cells'):
                for k in list(kw.get(group, {})):
                    kw[group][k] = derive_classes(kw[group][k])
    e1, e2 = Env(**kw1), Env(**kw2)
    counts = {}
    for x in items:
        counts[fr(x)] = counts.get(fr(x), 0) + 1
    top = max(counts.values())
    for name in STATS:
        f1, f2 = '%s(%s)' % (name, A1), '%s(%s)' % (name, A2)
        r1, r2 = e1.parse(f1), e2.parse(f2)
        d = '%s over %r' % (name, case['args'])
        if name == 'MODE':
            for r, dd in ((r1, d), (r2, '%s over %r' % (name, case['perm_args']))):
                g = r['result']
                if r['error'] is not None or isinstance(g, bool) or not isinstance(g, (int, float)) or counts.get(fr(g), 0) != top:
                    raise Violation('%s -> %r, which is not a most frequent item' % (dd, r['error'] or g), r['error'] or enc(g), None)
            continue
        want = reference(name, items)
        if want is None:
            continue        # sample forms of a single item / means of non-positive items: not defined by the statement
        if name == 'PRODUCT' and (abs(want) > F(10) ** 300 or (want != 0 and abs(want) < F(1, 10 ** 300))) and any(isinstance(x, float) for x in items):
            continue        # the product itself is outside the double range
        mag = max(abs(x) for x in items) or 1.0
        scale = mag * mag if name.startswith('VAR') else (0.0 if name in ('PRODUCT', 'COUNT') else mag)
        for r, dd in ((r1, d), (r2, '%s over the permuted/regrouped %r' % (name, case['perm_args']))):
            g = r['result']
            if r['error'] is not None or not close(g, want, scale=scale):
                raise Violation('%s -> %r, definition gives %r' % (dd, r['error'] or g, float(want)), r['error'] or enc(g), float(want))
    # LARGE: k-th of sorted-descending, over one (possibly nested) array
    k = case['k']
    kw = {'vars': {'v_arr': dec(case['args']), 'v_k': k}}
    want = sorted(map(fr, items), reverse=True)[k - 1]
    r = Env(**kw).parse('LARGE(v_arr,v_k)')
    if not same_value(kw['vars']['v_arr'], dec(case['args'])):
        raise Violation('LARGE(%r, %d) reordered or edited the list the host handed over: it is now %r' % (case['args'], k, kw['vars']['v_arr']), enc(kw['vars']['v_arr']), enc(case['args']))
    if r['error'] is not None or not close(r['result'], want, scale=0.0):
        raise Violation('LARGE(%r, %d) -> %r, expected %r' % (case['args'], k, r['error'] or r['result'], float(want)), r['error'] or enc(r['result']), float(want))
    kw = {'vars': {'v_arr': dec(list(items)), 'v_k': k}}
    r = Env(**kw).parse('LARGE(v_arr,%d)+0*SUM(v_arr)' % k)
    if not same_value(kw['vars']['v_arr'], dec(list(items))):
        raise Violation('LARGE(%r, %d) reordered or edited the flat list the host handed over: it is now %r' % (items, k, kw['vars']['v_arr']), enc(kw['vars']['v_arr']), enc(list(items)))
    if r['error'] is not None or not close(r['result'], want):
        raise Violation('LARGE(%r, %d) -> %r, expected %r' % (items, k, r['error'] or r['result'], float(want)), r['error'] or enc(r['result']), float(want))


# ---------------------------------------------------------------- integer lists: the order-free integer-valued statistics are exact

@st.composite
def int_case(draw):
    big = st.one_of(st.integers(2 ** 52, 2 ** 64), st.integers(-2 ** 64, -2 ** 52), st.sampled_from([2 ** 53 + 1, 2 ** 52 + 1, -(2 ** 53) - 1, 10 ** 17 + 1, 3 ** 40]))
    items = draw(st.lists(st.one_of(big, big, st.integers(-9, 9)), min_size=1, max_size=8))
    perm = draw(st.permutations(items))
    return {'items': items, 'args': regroup(draw, items), 'perm_args': regroup(draw, list(perm)), 'how': draw(st.lists(st.sampled_from(['var', 'lit']), min_size=1, max_size=3))}


def check_int_exact(case):
    items = case['items']
    kw1, kw2 = {}, {}
    A1 = ','.join(bind(case['args'], case['how'], kw1))
    A2 = ','.join(bind(case['perm_args'], case['how'][::-1], kw2))
    e1, e2 = Env(**kw1), Env(**kw2)
    prod = 1
    for x in items:
        prod *= x
    for name, want in (('SUM', sum(items)), ('MIN', min(items)), ('MAX', max(items)), ('PRODUCT', prod), ('COUNT', len(items))):
        for env, A, args in ((e1, A1, case['args']), (e2, A2, case['perm_args'])):
            r = env.parse('%s(%s)' % (name, A))
            g = r['result']
            if r['error'] is not None or isinstance(g, bool) or not isinstance(g, (int, float)) or g != want or (isinstance(g, float) and int(g) != want):
                raise Violation('%s over the integers %r -> %r, exactly %d by definition' % (name, args, r['error'] or g, want), r['error'] or enc(g), want)


def stats_classes(c):
    items = c['items']
    out = []
    if len(items) >= 3:
        out.append('len>=3')
    if any(x < 0 for x in items):
        out.append('negative')
    if any(isinstance(x, float) for x in items):
        out.append('fraction')
    if len(set(items)) < len(items):
        out.append('duplicate')
    if any(isinstance(a, list) and any(isinstance(b, list) for b in a) for a in c['args']):
        out.append('nested')
    if len(c['args']) >= 2:
        out.append('groups>=2')
    if 'range' in c['how']:
        out.append('range')
    if items and (min(abs(x) for x in items) >= 10 ** 7 or max(abs(x) for x in items) < 1e-6) and len(items) >= 20:
        out.append('extreme-magnitude')
    return out


def stats_nontrivial(c):
    k = stats_classes(c)
    return 'len>=3' in k and ('negative' in k or 'fraction' in k or 'duplicate' in k)


def stats_key(c):
    args = c['args']
    if len(args) == 1 and isinstance(args[0], list) and any(isinstance(b, list) for b in args[0]):
        return 'LARGE-nested'
    return ''


# ---------------------------------------------------------------- SLOPE

@st.composite
def slope_case(draw):
    n = draw(st.integers(2, 12))
    base = st.one_of(st.integers(-50, 50), st.integers(-400, 400).map(lambda k: k / 8.0))
    xs = draw(st.lists(base, min_size=n, max_size=n))
    ys = draw(st.lists(base, min_size=n, max_size=n))
    if len(set(xs)) == 1:
        xs[0] = xs[0] + 1
    off = draw(st.sampled_from([0, 0, 0, 44000, 100000, 1000000, -250000]))
    if off:
        # x values with a small spread around a large offset (day serials, years in the hundred thousands): integers, so that the sums stay exact
        xs = [off + int(round(x)) for x in xs]
        if len(set(xs)) == 1:
            xs[0] += 1
    perm = draw(st.permutations(list(range(n))))
    return {'xs': xs, 'ys': ys, 'perm': list(perm), 'lit': draw(st.booleans())}


def check_slope(case):
    xs, ys = case['xs'], case['ys']
    want = r_slope(ys, xs)
    for order in (list(range(len(xs))), case['perm']):
        X = [xs[i] for i in order]
        Y = [ys[i] for i in order]
        vals = Y + X
        kw = {'vars': {}}
        if case['lit']:
            names = [lit(v) for v in vals]
        else:
            names = []
            for i, v in enumerate(vals):
                n = 'v_s%s' % ('abcdefghijklmnopqrstuvwxyz'[i])
                kw['vars'][n] = v
                names.append(n)
        r = Env(**kw).parse('SLOPE(%s)' % ','.join(names))
        if r['error'] is not None or not close(r['result'], want):
            raise Violation('SLOPE(ys=%r, xs=%r) -> %r, least-squares slope %r' % (Y, X, r['error'] or r['result'], float(want)), r['error'] or enc(r['result']), float(want))


# ---------------------------------------------------------------- criteria

OPS = {'>': lambda a, b: a > b, '<': lambda a, b: a < b, '>=': lambda a, b: a >= b, '<=': lambda a, b: a <= b,
       '=': lambda a, b: a == b, '<>': lambda a, b: a != b}


def wild_re(p):
    return re.compile('(?s)\\A' + ''.join('.*' if ch == '*' else '.' if ch == '?' else re.escape(ch) for ch in p) + '\\Z')


def predicate(crit):
    """crit: ['op', op, number] | ['num', number] | ['text', s] | ['wild', pattern]"""
    kind = crit[0]
    if kind == 'op':
        return lambda cell: OPS[crit[1]](fr(cell), fr(crit[2]))
    if kind == 'num':
        return lambda cell: (not isinstance(cell, str)) and fr(cell) == fr(crit[1])
    if kind == 'text':
        return lambda cell: isinstance(cell, str) and cell == crit[1]
    rx = wild_re(crit[1])
    return lambda cell: isinstance(cell, str) and rx.match(cell) is not None


def crit_text(crit):
    def num(v):
        # a float whose shortest spelling uses an exponent is written the way the library itself writes it when a formula builds the criterion (">"&x)
        if isinstance(v, float) and 'e' in repr(v):
            return repr(v)
        s = lit(v)
        return s
    if crit[0] == 'op':
        return crit[1] + num(crit[2])
    if crit[0] == 'num':
        v = crit[1]
        if len(crit) > 2 and crit[2] == 'other-class' and float(v).is_integer() and abs(v) < 1e15:
            return ('%d' % v) if isinstance(v, float) else ('%d.0' % v)        # 2.0 asked for as "2", 3 as "3.0": the same number
        return num(v)
    return crit[1]


cell_num = st.one_of(st.integers(-20, 20), st.integers(-80, 80).map(lambda k: k / 4.0), st.integers(-1000, 1000), st.integers(-20, 20), st.sampled_from([1e-05, 2.5e-07, -1e-05, 1e+16, 1.5e+20, 3e-05, 1e-06, -2e+17]))
WORD = st.text(st.sampled_from('abcx.-[ abcx\n]!1'), min_size=1, max_size=4)        # (a line feed is a character like any other for * and ?)


@st.composite
def crit_and_range(draw, n):
    kind = draw(st.sampled_from(['op', 'op', 'num', 'text', 'wild', 'wild']))
    if kind in ('op', 'num'):
        cells = draw(st.lists(cell_num, min_size=n, max_size=n))
        pivot = draw(st.one_of(st.sampled_from(cells), cell_num))
        crit = ['op', draw(st.sampled_from(sorted(OPS))), pivot] if kind == 'op' else (['num', pivot, 'other-class'] if draw(st.booleans()) else ['num', pivot])
        return crit, cells
    if kind == 'wild' and draw(st.integers(0, 4)) == 0:
        # a wildcard criterion over a range that holds numbers next to text: a number is no text, whatever its digits look like
        cells = draw(st.lists(st.sampled_from([12, 1.5, 10, 11, 2, '12', '1x', '1', 'ab', 3, -1, '-1', 0.5, '1.5', 100]), min_size=n, max_size=n))
        return ['wild', draw(st.sampled_from(['1*', '1?', '*', '?', '*2', '?.5', '1*5', '-?', '??', '*.*', '1??']))], cells
    cells = draw(st.lists(WORD, min_size=n, max_size=n))
    w = draw(st.sampled_from(cells))
    if kind == 'text':
        t = draw(st.one_of(st.just(w), WORD))
        if t[0] in '<>=' or any(c in t for c in '*?'):
            t = 'a' + t
        try:
            float(t)
            t = 'a' + t
        except ValueError:
            pass
        return ['text', t], cells
    if draw(st.integers(0, 3)) == 0:
        # prefix and suffix of the pattern overlap: u*u must not match u itself
        u = draw(st.text(st.sampled_from('abx'), min_size=1, max_size=2))
        v = draw(st.sampled_from(['', 'a', 'b']))
        cells = list(cells)
        forced = [u, u + u, u + 'c' + u, u + v, v + u, u + v + u]
        for k, f in enumerate(draw(st.lists(st.sampled_from(forced), min_size=1, max_size=min(n, 4)))):
            cells[(k * 2) % n] = f
        return ['wild', draw(st.sampled_from([u + '*' + u, u + v + '*' + v + u, u + '*' + v + u]))], cells
    i = draw(st.integers(0, len(w)))
    j = draw(st.integers(i, len(w)))
    near = [w[:i] + w[i + 1:], w + 'b', 'x' + w]
    for k, nn in enumerate(draw(st.lists(st.sampled_from(near), max_size=2))):
        if nn:
            cells[(k * 3 + 1) % n] = nn
    p = draw(st.sampled_from([w[:i] + '*' + w[j:], w[:i] + '?' * max(1, j - i) + w[j:], w[:i] + '*', '*' + w[j:], '?' + w[1:], w + '?', '*']))
    if p[0] in '<>=':
        p = '?' + p[1:]
    return ['wild', p], cells


@st.composite
def criteria_case(draw):
    n = draw(st.integers(1, 12))
    values = draw(st.lists(st.one_of(st.integers(-50, 50), st.integers(-200, 200).map(lambda k: k / 4.0)), min_size=n, max_size=n))
    npairs = draw(st.integers(1, 3))
    pairs = [list(draw(crit_and_range(n))) for _ in range(npairs)]
    if draw(st.integers(0, 4)) == 0 and pairs[0][0][0] in ('text', 'wild') and len(pairs) < 3 and all(isinstance(c, str) for c in pairs[0][1]):
        # a second criterion that differs from the first in blanks only, over cells that differ in blanks only
        c0, cells0 = pairs[0]
        txt = c0[1]
        i = draw(st.integers(0, len(txt)))
        variant = (txt[:i] + ' ' + txt[i:]) if ' ' not in txt else txt.replace(' ', '', 1)
        if variant and variant[0] not in '<>=' and variant.strip():
            cells1 = [(c[:1] + ' ' + c[1:]) if k % 2 else c.replace(' ', '') or c for k, c in enumerate(cells0)]
            pairs.append([[c0[0], variant], cells1])
    return {'values': values, 'pairs': pairs, 'how': draw(st.sampled_from(['var', 'lit', 'range', 'tup']))}


def check_criteria(case):
    values, pairs = case['values'], case['pairs']
    n = len(values)
    preds = [predicate(c) for c, cells in pairs]
    sel_all = [i for i in range(n) if all(p(cells[i]) for p, (c, cells) in zip(preds, pairs))]
    kw = {}
    args = [values]
    for c, cells in pairs:
        args.append(cells)
    names = bind(args, [case['how']], kw, prefix='c')
    for k, (c, cells) in enumerate(pairs):
        kw.setdefault('vars', {})['v_crit%s' % 'abc'[k]] = crit_text(c)
    env = Env(**kw)
    tail = ','.join('%s,v_crit%s' % (names[k + 1], 'abc'[k]) for k in range(len(pairs)))
    d = 'values %r, criteria %r: ' % (values, [(crit_text(c), cells) for c, cells in pairs])

    def number(f, want, what):
        r = env.parse(f)
        if r['error'] is not None or not close(r['result'], want):
            raise Violation(d + '%s -> %r, expected %r' % (what, r['error'] or r['result'], float(want)), r['error'] or enc(r['result']), float(want))

    def an_error(f, what):
        r = env.parse(f)
        if r['error'] is None:
            raise Violation(d + '%s -> %r, expected an error (nothing selected)' % (what, r['result']), enc(r['result']), 'error')

    sel_vals = [values[i] for i in sel_all]
    number('SUMIFS(%s,%s)' % (names[0], tail), r_sum(sel_vals), 'SUMIFS')
    number('MAXIFS(%s,%s)' % (names[0], tail), max(map(fr, sel_vals)) if sel_vals else F(0), 'MAXIFS')
    if sel_vals:
        number('AVERAGEIFS(%s,%s)' % (names[0], tail), r_mean(sel_vals), 'AVERAGEIFS')
    else:
        an_error('AVERAGEIFS(%s,%s)' % (names[0], tail), 'AVERAGEIFS')
    # single-criterion functions on the first pair
    c0, cells0 = pairs[0]
    sel0 = [i for i in range(n) if preds[0](cells0[i])]
    number('COUNTIF(%s,v_crita)' % names[1], F(len(sel0)), 'COUNTIF(first criteria range)')
    if sel0:
        number('AVERAGEIF(%s,v_crita,%s)' % (names[1], names[0]), r_mean([values[i] for i in sel0]), 'AVERAGEIF(range, criterion, values)')
    else:
        an_error('AVERAGEIF(%s,v_crita,%s)' % (names[1], names[0]), 'AVERAGEIF(range, criterion, values)')
    if c0[0] in ('op', 'num'):
        own = [cells0[i] for i in sel0]
        number('SUMIF(%s,v_crita)' % names[1], r_sum(own), 'SUMIF(range, criterion)')
        if own:
            number('AVERAGEIF(%s,v_crita)' % names[1], r_mean(own), 'AVERAGEIF(range, criterion)')
        else:
            an_error('AVERAGEIF(%s,v_crita)' % names[1], 'AVERAGEIF(range, criterion)')
    # the same cells grouped differently: the criteria cells as a flat list, the values as rows of a table (equal counts)
    if n >= 2 and n % 2 == 0:
        env2 = Env(vars={'v_cells': list(cells0), 'v_table': [list(values[:n // 2]), list(values[n // 2:])], 'v_crita': crit_text(c0)})
        want = [values[i] for i in sel0]
        r = env2.parse('AVERAGEIF(v_cells,v_crita,v_table)')
        if want:
            if r['error'] is not None or not close(r['result'], r_mean(want)):
                raise Violation(d + 'AVERAGEIF(flat cells, criterion, the values as a 2-row table) -> %r, expected %r' % (r['error'] or r['result'], float(r_mean(want))), r['error'] or enc(r['result']), float(r_mean(want)))


def crit_key(case):
    kinds = set(c[0] for c, cells in case['pairs'])
    if 'wild' in kinds:
        return 'wildcard-criterion'
    n = len(case['values'])
    preds = [predicate(c) for c, cells in case['pairs']]
    sel = [case['values'][i] for i in range(n) if all(p(cells[i]) for p, (c, cells) in zip(preds, case['pairs']))]
    if sel and max(sel) < 0:
        return 'all-selected-negative'
    return ''


def crit_classes(case):
    out = set('crit:' + c[0] for c, cells in case['pairs'])
    n = len(case['values'])
    preds = [predicate(c) for c, cells in case['pairs']]
    sel = [i for i in range(n) if all(p(cells[i]) for p, (c, cells) in zip(preds, case['pairs']))]
    out.add('none-selected' if not sel else ('all-selected' if len(sel) == n else 'proper-subset'))
    out.add('pairs%d' % len(case['pairs']))
    return sorted(out)


# ---------------------------------------------------------------- errors among the items

@st.composite
def error_case(draw):
    items = draw(st.lists(st.integers(-20, 20), min_size=1, max_size=8))
    codes = [draw(st.sampled_from(CODES8)) for _ in range(draw(st.integers(1, 2)))]
    for c in codes:
        items.insert(draw(st.integers(0, len(items))), err(c))
    return {'args': regroup(draw, items), 'how': draw(st.sampled_from(['var', 'range']))}


def check_errors(case):
    items = flat(case['args'])
    first = next(x['v'] for x in items if isinstance(x, dict))
    kw = {}
    A = ','.join(bind(case['args'], [case['how']], kw, prefix='e'))
    env = Env(**kw)
    for name in ('SUM', 'PRODUCT', 'AVERAGE', 'MIN', 'MAX', 'MEDIAN'):
        r = env.parse('%s(%s)' % (name, A))
        if r['error'] != first or r['result'] is not None:
            raise Violation('%s over %r -> %r, expected the error %s' % (name, case['args'], r['error'] or r['result'], first), r['error'] or enc(r['result']), first)


# ---------------------------------------------------------------- grouping does not matter: deep nesting, the same list twice

DEEP_FNS = ['SUM', 'COUNT', 'MAX', 'MIN', 'AVERAGE', 'MEDIAN', 'PRODUCT', 'COUNTA', 'VAR.P', 'AVEDEV']


def enum_deep(tier, shard, nshards):
    # enumerated, not Hypothesis-driven: Hypothesis raises the interpreter's recursion limit inside its test bodies, which would hide a walk that recurses per level
    depths = [3, 40, 400, 990, 1500, 5000] if tier == 'quick' else [3, 40, 400, 900, 990, 998, 1010, 1500, 5000, 20000, 100000]
    i = 0
    for d in depths:
        for f in DEEP_FNS:
            i += 1
            if i % nshards == shard:
                yield [f, d, (i * 7) % 5]


def check_deep(case):
    """The aggregates see the flattened items: how deep the host nested them, and whether one list object is mentioned twice, changes nothing."""
    f, depth, shape = case
    items = [3, 1.5, -2, 8, 0.25, 7, 2][:3 + shape]
    env0 = Env(vars={'v_flat': list(items)})
    want = env0.parse('%s(v_flat)' % f)
    nested = list(items[1:])
    for k in range(depth):
        nested = [nested] if k % 3 else [nested[0], nested[1:]] if len(nested) > 1 and not isinstance(nested[0], list) else [nested]
    env = Env(vars={'v_deep': [items[0], nested], 'v_flat': list(items)})
    got = env.parse('%s(v_deep)' % f)
    if want['error'] is not None or not same_outcome(got, want, tol=1e-12):
        raise Violation('%s over %r gives %r; over the same items nested %d levels deep it gives %r' % (f, items, want, depth, got), got['error'] or enc(got['result']), want['error'] or enc(want['result']))
    if f in ('SUM', 'COUNT', 'COUNTA'):
        twice = env.parse('%s(v_flat,v_flat)' % f)
        w2 = want['result'] * 2
        if twice['error'] is not None or twice['result'] != w2:
            raise Violation('%s(a, a) with a = %r gives %r, expected %r (an argument mentioned twice is two arguments)' % (f, items, twice, w2), twice['error'] or enc(twice['result']), w2)


LAWS = [
    Law('deep_and_repeated', check_deep, enumerate=enum_deep, shards=(8, 16),
        rule='10 aggregates over 3-7 numbers handed over flat and nested 3..5000 levels deep (to 100000 in thorough; around the interpreter\'s default recursion limit in particular): the same outcome; SUM/COUNT/COUNTA of one list mentioned twice count it twice'),
    Law('statistics', check_stats, strategy=stats_case(), classes=stats_classes, nontrivial=stats_nontrivial, key=stats_key,
        quick=2400, thorough=40000, shards=(16, 16),
        required=('len>=3', 'negative', 'fraction', 'duplicate', 'nested', 'groups>=2', 'range', 'extreme-magnitude'),
        rule='list of 1-40 numbers, a partition into arguments (scalars, flat arrays, nested arrays; variables / literals / ranges) and a permuted second partition: '
             '19 statistics equal their exact definitions on both, MODE returns a most frequent item, LARGE(array,k) is the k-th largest of the flattened array; '
             'non-trivial = length >= 3 with a negative, fractional or duplicate item'),
    Law('integer_exactness', check_int_exact, strategy=int_case(), quick=700, thorough=40000, shards=(4, 16),
        nontrivial=lambda c: len(c['items']) >= 2, classes=lambda c: ('sum-needs-more-than-53-bits',) if abs(sum(c['items'])) >= 2 ** 53 else (), required=('sum-needs-more-than-53-bits',),
        rule='1-8 integers, most of magnitude 2^52..2^64, regrouped and permuted between arguments and nested arrays, as variables or literals: SUM, PRODUCT, MIN, MAX and COUNT equal the exact integer the definition gives (a result rounded to a double is not equal to it)'),
    Law('slope', check_slope, strategy=slope_case(), quick=1000, thorough=40000, shards=(4, 16),
        nontrivial=lambda c: len(c['xs']) >= 3,
        rule='2-12 (x, y) pairs, SLOPE(y1..yn, x1..xn) equals the least-squares slope and is unchanged when the pairs are permuted consistently'),
    Law('criteria', check_criteria, strategy=criteria_case(), key=crit_key, classes=crit_classes, quick=3000, thorough=150000, shards=(8, 16),
        required=('crit:op', 'crit:num', 'crit:text', 'crit:wild', 'none-selected', 'proper-subset', 'pairs2', 'pairs3'),
        nontrivial=lambda c: 'proper-subset' in crit_classes(c),
        rule='1-12 values with 1-3 (criteria range, criterion) pairs - operator+number, bare number, bare text, text with * and ? (with near-miss cells) - '
             'SUMIFS/AVERAGEIFS/MAXIFS/COUNTIF/AVERAGEIF/SUMIF equal sum/mean/max/count over exactly the selected positions, 0 (an error for averages) when nothing is selected; non-trivial = a proper non-empty subset is selected'),
    Law('error_items', check_errors, strategy=error_case(), quick=1000, thorough=40000, shards=(4, 8),
        nontrivial=lambda c: len(flat(c['args'])) >= 3,
        rule='1-2 error values of any of the 8 codes among integer items, regrouped: SUM, PRODUCT, AVERAGE, MIN, MAX, MEDIAN report the first error in flattening order'),
]

LEVEL_TEXT = 'Hypothesis exploration: 19 statistics + LARGE + SLOPE against exact Fraction definitions, with permutation and regrouping (nested arrays, literals, variables, ranges) as metamorphic relations; exact comparison of the integer-valued statistics on integers of 2^52..2^64; criteria functions against a reference criteria compiler over generated ranges with near-miss cells.'
LEVEL_NOTE = 'Trusted: the Fraction definitions and the reference criteria compiler in hx/checks/c11.py. Case sensitivity of text criteria and the three-argument SUMIF are not decided by the statement/code documentation and are not generated.'
TECHNIQUE = 'Hypothesis differential testing against exact rational definitions + metamorphic permutation/regrouping + reference criteria model'
