"""C12 - logical functions are truth-functional; type predicates classify values."""
import math

from hypothesis import strategies as st

from ..env import Env, pev, lit, NoLiteral
from ..law import Law, Violation, Skip
from ..values import dec, enc, CODES8, err

RULE = 'C12: tuples (1-6 items, flat or nested in arrays) of logicals, integers, floats and blanks; IF/IFS/SWITCH lists; every value class for the predicates; every error code in every tested position'
ASSUMPTIONS = ['truth value: logicals as themselves, numbers true iff non-zero, blank false (text items are not in the quantifier and not generated for AND/OR/XOR/NOT)',
               'SWITCH target and cases are of one kind (all numbers or all text), so that "equal" needs no cross-type rule',
               'dates and arrays are not given to the five classifying predicates (the statement names numbers, text, logicals, blanks and errors only)',
               'ISEVEN/ISODD are compared by truthiness (1/0 is accepted for TRUE/FALSE) on finite numbers below 2^53']

truthy = st.one_of(st.booleans(), st.integers(-3, 3), st.sampled_from([0, 0.0, 0.5, -2.5, 1e-9, 7, -1]), st.none(), st.floats(-100, 100, allow_nan=False),
                   st.sampled_from([{'$': 'pow', 'v': [10, 400]}, {'$': 'pow', 'v': [-3, 701]}, 2 ** 70, -(10 ** 20)]))       # a non-zero number is true, whatever its size (integers beyond the double range are exact integers)


def tv(x):
    if x is None:
        return False
    if isinstance(x, dict) and x.get('$') == 'pow':
        return True
    return bool(x)


def flat(x):
    out = []
    for e in x:
        if isinstance(e, list):
            out.extend(flat(e))
        else:
            out.append(e)
    return out


def regroup(draw, items):
    args = []
    i = 0
    while i < len(items):
        k = draw(st.integers(1, 3))
        chunk = items[i:i + k]
        i += k
        shape = draw(st.integers(0, 3))
        if shape <= 1 and len(chunk) == 1:
            args.append(chunk[0])
        elif shape == 2 and len(chunk) >= 2:
            args.append([chunk[0], list(chunk[1:])] if draw(st.booleans()) else [chunk[0], [[chunk[1]], list(chunk[1:][1:]) or [chunk[1]]]] if len(chunk) >= 3 else [[[chunk[0]], [[chunk[1]]]]])      # nesting two to four levels deep
        else:
            args.append(list(chunk))
    return args


def as_tuples(v, depth=0):
    # the same arrays handed over as tuples (rows of a database cursor, a namedtuple): every other level, so that lists and tuples mix
    if isinstance(v, list):
        inner = [as_tuples(x, depth + 1) for x in v]
        return tuple(inner) if depth % 2 == 0 else inner
    return v


def spell_args(args, how, vars_, tuples=False):
    names = []
    for i, a in enumerate(args):
        n = 'v_%s' % 'abcdefghij'[i]
        if how == 'lit' and not isinstance(a, list):
            try:
                names.append(lit(a))
                continue
            except NoLiteral:
                pass
        vars_[n] = as_tuples(dec(a)) if tuples else dec(a)
        names.append(n)
    return names


def is_errspec(x):
    return isinstance(x, dict) and x.get('$') == 'err'


def first_error(items):
    for x in items:
        if is_errspec(x):
            return x['v']
    return None


def expect(f, env, want_value=None, want_error=None, desc=None):
    r = env.parse(f)
    if want_error is not None:
        if r['error'] != want_error:
            raise Violation('%s -> %r, expected %s' % (desc or f, r['error'] or r['result'], want_error), r['error'] or enc(r['result']), want_error)
        return
    g = r['result']
    if r['error'] is not None or type(g) != type(want_value) or g != want_value:
        raise Violation('%s -> %r, expected %r' % (desc or f, r['error'] or g, want_value), r['error'] or enc(g), enc(want_value))


# ---------------------------------------------------------------- AND / OR / XOR / NOT

@st.composite
def connective_case(draw):
    items = draw(st.lists(truthy, min_size=1, max_size=6))
    nerr = draw(st.sampled_from([0, 0, 0, 1, 1, 2]))
    for _ in range(nerr):
        items[draw(st.integers(0, len(items) - 1))] = err(draw(st.sampled_from(CODES8)))
    return {'items': items, 'args': regroup(draw, items), 'how': draw(st.sampled_from(['var', 'lit'])), 'tuples': draw(st.integers(0, 4)) == 0}


def check_connective(case):
    args = case['args']
    items = flat(args)
    vars_ = {}
    names = spell_args(args, case['how'], vars_, tuples=bool(case.get('tuples')))
    env = Env(vars=vars_)
    e = first_error(items)
    tvs = [tv(x) for x in items if not is_errspec(x)]
    d = 'arguments %r: ' % (args,)
    A = ','.join(names)
    if e is not None:
        for fn in ('AND', 'OR', 'XOR'):
            expect('%s(%s)' % (fn, A), env, want_error=e, desc=d + fn)
    else:
        expect('AND(%s)' % A, env, all(tvs), desc=d + 'AND')
        expect('OR(%s)' % A, env, any(tvs), desc=d + 'OR')
        expect('XOR(%s)' % A, env, sum(tvs) % 2 == 1, desc=d + 'XOR')
        if case['how'] == 'var':
            # the same host value mentioned twice in one call is two arguments: XOR(a, a) is FALSE whatever a holds, AND/OR(a, a) what they are for a
            n0 = names[0]
            t0 = [tv(x) for x in (flat(args[0]) if isinstance(args[0], list) else [args[0]])]
            expect('XOR(%s,%s)' % (n0, n0), env, False, desc=d + 'XOR(first argument twice)')
            expect('XOR(%s,%s,%s)' % (n0, n0, n0), env, sum(t0) % 2 == 1, desc=d + 'XOR(first argument three times)')
    x = items[0]
    env2 = Env(vars={'v_x': dec(x)})
    if is_errspec(x):
        expect('NOT(v_x)', env2, want_error=x['v'], desc='NOT(%r)' % (x,))
    else:
        expect('NOT(v_x)', env2, not tv(x), desc='NOT(%r)' % (x,))


def conn_classes(c):
    out = []
    items = c['items']
    if any(is_errspec(x) for x in items):
        out.append('error-item')
        if not is_errspec(items[0]):
            out.append('error-not-first')
    if any(isinstance(a, list) and any(isinstance(b, list) for b in a) for a in c['args']):
        out.append('nested')
    tvs = set(tv(x) for x in items if not is_errspec(x))
    if len(tvs) == 2:
        out.append('mixed-truth')
    if any(x is None for x in items):
        out.append('blank')
    return out


def conn_key(c):
    return 'error-in-condition' if any(is_errspec(x) for x in c['items']) else ''


# ---------------------------------------------------------------- IF / IFS / SWITCH

branch_val = st.one_of(st.integers(-1000, 1000), st.text(st.sampled_from('abcxyz'), min_size=1, max_size=4), st.booleans(), st.floats(-10, 10, allow_nan=False))


@st.composite
def cond_case(draw):
    kind = draw(st.sampled_from(['IF', 'IFS', 'IFS', 'SWITCH', 'SWITCH']))
    how = draw(st.sampled_from(['var', 'lit']))
    if kind == 'IF':
        c = draw(st.one_of(truthy, st.sampled_from(CODES8).map(err)))
        a, b = draw(branch_val), draw(branch_val)
        if not isinstance(c, dict) and draw(st.integers(0, 3)) == 0:
            if draw(st.booleans()):
                a = err(draw(st.sampled_from(CODES8)))
            else:
                b = err(draw(st.sampled_from(CODES8)))
        return {'kind': kind, 'c': c, 'a': a, 'b': b, 'how': how}
    if kind == 'IFS':
        n = draw(st.integers(1, 5))
        conds = [draw(truthy) for _ in range(n)]
        vals = ['res%d' % i if draw(st.booleans()) else 100 + i for i in range(n)]
        if draw(st.integers(0, 2)) == 0:
            firsttrue = next((i for i, c in enumerate(conds) if tv(c)), n - 1)
            conds[draw(st.integers(0, firsttrue))] = err(draw(st.sampled_from(CODES8)))
        elif draw(st.integers(0, 3)) == 0:
            # a blank in a value slot is a value like any other: selected, it is the (blank) outcome
            vals[draw(st.integers(0, n - 1))] = None
        elif draw(st.booleans()):
            # an error value sitting in value slots: it is the outcome only when its own condition is the first true one
            for i in draw(st.lists(st.integers(0, n - 1), min_size=1, max_size=2)):
                vals[i] = err(draw(st.sampled_from(CODES8)))
        return {'kind': kind, 'conds': conds, 'vals': vals, 'how': how}
    n = draw(st.integers(1, 4))
    textual = draw(st.booleans())
    pool = ['ka', 'kb', 'kc', 'kd', 'ke', 'Kf'] if textual else [1, 2, 3, 4, 5, 60]
    if not textual and draw(st.integers(0, 3)) == 0:
        # numbers that differ, though by less than one part in 10^9: "equal" means equal
        pool = [2000000000, 2000000001, 2000000002.0, 2000000001.5, 1, 1.0000000001, 1.0000000002, 0.30000000000000004, 0.3]
    cases = [draw(st.sampled_from(pool)) for _ in range(n)]
    target = draw(st.sampled_from(pool))
    results = ['res%d' % i if draw(st.booleans()) else 100 + i for i in range(n)]
    default = draw(st.one_of(st.none(), st.just('dflt'), st.sampled_from(pool)))   # a default that may equal the target
    if not textual and draw(st.integers(0, 3)) == 0:
        # the target (or a case) as the float that equals the integer: 2.0 = 2 holds, so the case is found
        if draw(st.booleans()):
            target = float(target)
        else:
            cases = [float(c) if draw(st.booleans()) else c for c in cases]
    if draw(st.integers(0, 4)) == 0:
        target = err(draw(st.sampled_from(CODES8)))
    elif draw(st.integers(0, 2)) == 0:
        for i in draw(st.lists(st.integers(0, n - 1), min_size=1, max_size=2)):
            results[i] = err(draw(st.sampled_from(CODES8)))
    return {'kind': kind, 'target': target, 'cases': cases, 'results': results, 'default': default, 'how': how}


def expect_val(f, env, v, desc):
    if is_errspec(v):
        expect(f, env, want_error=v['v'], desc=desc)
    else:
        expect(f, env, v, desc=desc)


def check_cond(case):
    kind = case['kind']
    vars_ = {}
    if kind == 'IF':
        names = spell_args([case['c'], case['a'], case['b']], case['how'], vars_)
        env = Env(vars=vars_)
        f = 'IF(%s)' % ','.join(names)
        d = 'IF(%r,%r,%r)' % (case['c'], case['a'], case['b'])
        if is_errspec(case['c']):
            expect(f, env, want_error=case['c']['v'], desc=d)
        else:
            expect_val(f, env, case['a'] if tv(case['c']) else case['b'], desc=d)
        return
    if kind == 'IFS':
        seq = []
        for c, v in zip(case['conds'], case['vals']):
            seq += [c, v]
        names = spell_args(seq, case['how'], vars_)
        env = Env(vars=vars_)
        f = 'IFS(%s)' % ','.join(names)
        d = 'IFS%r' % (tuple(seq),)
        for c, v in zip(case['conds'], case['vals']):
            if is_errspec(c):
                expect(f, env, want_error=c['v'], desc=d)
                return
            if tv(c):
                expect_val(f, env, v, desc=d)
                return
        expect(f, env, want_error='#N/A', desc=d)
        return
    seq = [case['target']]
    for c, v in zip(case['cases'], case['results']):
        seq += [c, v]
    if case['default'] is not None:
        seq.append(case['default'])
    names = spell_args(seq, case['how'], vars_)
    env = Env(vars=vars_)
    f = 'SWITCH(%s)' % ','.join(names)
    d = 'SWITCH%r' % (tuple(seq),)
    if is_errspec(case['target']):
        expect(f, env, want_error=case['target']['v'], desc=d)
        return
    for c, v in zip(case['cases'], case['results']):
        if c == case['target']:
            expect_val(f, env, v, desc=d)
            return
    if case['default'] is not None:
        expect(f, env, case['default'], desc=d)
    else:
        expect(f, env, want_error='#N/A', desc=d)


def cond_classes(c):
    out = [cond_key(c)]
    slots = c.get('vals') or c.get('results') or [c.get('a'), c.get('b')]
    if any(is_errspec(x) for x in slots) and out[0] != 'error-in-condition':
        out.append('error-in-value-slot')
    return out


def cond_key(c):
    if c['kind'] == 'IF' and is_errspec(c['c']):
        return 'error-in-condition'
    if c['kind'] == 'IFS' and any(is_errspec(x) for x in c['conds']):
        return 'error-in-condition'
    if c['kind'] == 'SWITCH':
        if is_errspec(c['target']):
            return 'error-in-condition'
        if c['default'] is not None and c['default'] == c['target'] and c['target'] not in c['cases']:
            return 'SWITCH-default-equals-target'
    return c['kind']


# ---------------------------------------------------------------- predicates

CLASS_PRED = {'number': 'ISNUMBER', 'text': 'ISTEXT', 'logical': 'ISLOGICAL', 'blank': 'ISBLANK', 'error': 'ISERROR'}

pred_value = st.one_of(
    st.tuples(st.just('number'), st.one_of(st.integers(-10 ** 9, 10 ** 9), st.floats(-1e9, 1e9, allow_nan=False), st.sampled_from([0, 1, -1, 0.0, 2.5]))),
    st.tuples(st.just('text'), st.one_of(st.text(max_size=6), st.sampled_from(['', '12', 'TRUE', '#N/A', ' ', '0']))),
    # host values whose class merely derives from int / float / str
    st.tuples(st.just('number'), st.one_of(st.integers(-9, 9).map(lambda k: {'$': 'sub', 'v': ['int', k]}), st.integers(-40, 40).map(lambda k: {'$': 'sub', 'v': ['float', k / 4.0]}))),
    st.tuples(st.just('text'), st.sampled_from(['', 'abc', '12']).map(lambda t: {'$': 'sub', 'v': ['str', t]})),
    st.tuples(st.just('logical'), st.booleans()),
    st.tuples(st.just('blank'), st.none()),
    st.tuples(st.just('other'), st.sampled_from([{'$': 'dt', 'v': '2020-01-01T00:00:00'}, {'$': 'dt', 'v': '1999-12-31T23:59:59'}, [1, 2], [[1, 2], [3, 4]], ['a'], {'$': 'tup', 'v': [1, 2]}])),      # a date, an array: none of the five classes
    st.tuples(st.just('error'), st.sampled_from(CODES8).map(err)),
).map(list)

ERR_ROUTES = {'#DIV/0!': '1/0', '#N/A': 'NA()', '#VALUE!': '"q"+1', '#NUM!': 'SQRT(-1)*0+DATE(1900,1,1)-99999', '#REF!': 'INDEX({1,2},5)'}


def check_predicates(case):
    cls, spec = case['v']
    v = dec(spec)
    how = case['how']
    vars_ = {'v_x': v}
    X = 'v_x'
    if how == 'lit':
        try:
            X = lit(v)
        except NoLiteral:
            if cls == 'error' and spec['v'] in ERR_ROUTES and spec['v'] != '#NUM!' :
                X = ERR_ROUTES[spec['v']]
    elif how == 'cell':
        X = 'B7'
    env = Env(vars=vars_, cells={'B7': v} if how == 'cell' else None)
    d = 'value %r (%s) as %s: ' % (spec, cls, how)
    names = ['ISNUMBER', 'ISTEXT', 'ISLOGICAL', 'ISBLANK', 'ISERROR', 'ISNONTEXT', 'ISERR', 'ISNA']
    f = '{' + ','.join('%s(%s)' % (n, X) for n in names) + '}'
    r = env.parse(f)
    g = r['result']
    if r['error'] is not None or not isinstance(g, list) or len(g) != len(names) or not all(isinstance(b, bool) for b in g):
        raise Violation(d + '%s -> %r' % (f, r['error'] or g), r['error'] or enc(g), 'eight logicals')
    res = dict(zip(names, g))
    for c, p in CLASS_PRED.items():
        if cls == 'other':
            continue        # which class a date or an array falls in is not stated; the derived relations below are
        if res[p] != (c == cls):
            raise Violation(d + '%s = %r' % (p, res[p]), res[p], c == cls)
    if isinstance(v, (bool, int, float)) and v in (0, 1) and not isinstance(v, str):
        # the same predicate asked twice within one formula, about values that are equal but of different classes (1, TRUE, 1.0): each answer is about its own argument
        twins = [t for t in ([1, True, 1.0] if v == 1 else [0, False, 0.0]) if type(t) != type(v)]
        env2 = Env(vars={'v_x': v, 'v_y': twins[0], 'v_z': twins[1]})
        for p in ('ISNUMBER', 'ISLOGICAL', 'ISTEXT', 'ISNONTEXT', 'ISBLANK'):
            f2 = '{%s(v_x),%s(v_y),%s(v_z)}' % (p, p, p)
            r2 = env2.parse(f2)
            want2 = [{'ISNUMBER': not isinstance(t, bool), 'ISLOGICAL': isinstance(t, bool), 'ISTEXT': False, 'ISNONTEXT': True, 'ISBLANK': False}[p] for t in (v, twins[0], twins[1])]
            if r2['error'] is not None or r2['result'] != want2 or any(type(b) is not bool for b in r2['result']):
                raise Violation('%s with v_x = %r, v_y = %r, v_z = %r -> %r, expected %r' % (f2, v, twins[0], twins[1], r2['error'] or r2['result'], want2), r2['error'] or enc(r2['result']), want2)
    if res['ISNONTEXT'] != (not res['ISTEXT']):
        raise Violation(d + 'ISNONTEXT = %r but ISTEXT = %r' % (res['ISNONTEXT'], res['ISTEXT']), res['ISNONTEXT'], not res['ISTEXT'])
    if res['ISERROR'] != (res['ISERR'] or res['ISNA']):
        raise Violation(d + 'ISERROR = %r, ISERR = %r, ISNA = %r' % (res['ISERROR'], res['ISERR'], res['ISNA']), res['ISERROR'], res['ISERR'] or res['ISNA'])
    if cls == 'error':
        na = spec['v'] == '#N/A'
        if res['ISNA'] != na or res['ISERR'] != (not na):
            raise Violation(d + 'ISNA = %r, ISERR = %r' % (res['ISNA'], res['ISERR']), [res['ISNA'], res['ISERR']], [na, not na])
    elif res['ISNA'] or res['ISERR']:
        raise Violation(d + 'ISNA = %r, ISERR = %r on a non-error' % (res['ISNA'], res['ISERR']), [res['ISNA'], res['ISERR']], [False, False])


def check_parity(case):
    x = case['x']
    if case.get('text'):
        # the number written as text: whatever the two functions make of text, they make the same of it (both refuse it with one error value, or both
        # read the number and answer complementarily)
        t = repr(x) if isinstance(x, float) else str(x)
        env = Env(vars={'v_x': t})
        X = 'v_x' if case['var'] else '"%s"' % t
        re_, ro = env.parse('ISEVEN(%s)' % X), env.parse('ISODD(%s)' % X)
        if re_['error'] is not None or ro['error'] is not None:
            if re_['error'] != ro['error']:
                raise Violation('ISEVEN(%s) -> %r but ISODD(%s) -> %r for the text %r' % (X, re_, X, ro, t), re_['error'] or enc(re_['result']), ro['error'] or enc(ro['result']))
            return
        ge, go = re_['result'], ro['result']
        if not all(isinstance(b, bool) for b in (ge, go)) or ge == go:
            raise Violation('ISEVEN(%s) = %r and ISODD(%s) = %r for the text %r: not complementary' % (X, ge, X, go, t), enc([ge, go]), None)
        return
    env = Env(vars={'v_x': x})
    X = 'v_x' if case['var'] else lit(x)
    r = env.parse('{ISEVEN(%s),ISODD(%s)}' % (X, X))
    g = r['result']
    if r['error'] is not None or not isinstance(g, list) or len(g) != 2:
        raise Violation('ISEVEN/ISODD(%r) -> %r' % (x, r['error'] or g), r['error'] or enc(g), None)
    even = math.trunc(x) % 2 == 0
    ge, go = g
    if not all(isinstance(b, (bool, int)) and b in (0, 1, True, False) for b in g):
        raise Violation('ISEVEN/ISODD(%r) = %r are not truth values' % (x, g), enc(g), [even, not even])
    if bool(ge) != even or bool(go) != (not even):
        raise Violation('ISEVEN(%r) = %r, ISODD(%r) = %r; integer part %d' % (x, ge, x, go, math.trunc(x)), enc(g), [even, not even])


LAWS = [
    Law('connectives', check_connective, strategy=connective_case(), key=conn_key, classes=conn_classes, quick=4000, thorough=150000, shards=(8, 16),
        required=('error-item', 'error-not-first', 'nested', 'mixed-truth', 'blank'),
        nontrivial=lambda c: (len(c['items']) >= 2 and 'mixed-truth' in conn_classes(c)) or 'nested' in conn_classes(c) or 'error-not-first' in conn_classes(c),
        rule='1-6 truth-carrying items (TRUE, FALSE, integers, floats, blank), optionally 1-2 error values of any of the 8 codes at any position, regrouped into scalar / array / nested-array arguments given as variables or literals: '
             'AND = all, OR = any, XOR = parity, NOT = negation of the truth values; an error item yields that error (the leftmost); non-trivial = mixed truth values, nesting, or an error in a non-first position'),
    Law('conditionals', check_cond, strategy=cond_case(), key=cond_key, quick=4000, thorough=150000, shards=(8, 16),
        classes=cond_classes, required=('IF', 'IFS', 'SWITCH', 'error-in-condition', 'SWITCH-default-equals-target', 'error-in-value-slot'),
        nontrivial=lambda c: c['kind'] != 'IF' or cond_key(c) == 'error-in-condition',
        rule='IF(cond, a, b); IFS with 1-5 (condition, value) pairs; SWITCH(target, 1-4 (case, result) pairs [, default]) with targets/cases of one kind (text, small integers with their float twins, or numbers that differ by less than one part in 10^9) and a default that may equal the target; '
             'an error in the tested position (IF condition, an IFS condition at or before the first true one, the SWITCH target) yields that error; an error value sitting in a branch/value/result slot is the outcome exactly when that slot is the selected one'),
    Law('predicates', check_predicates, strategy=st.fixed_dictionaries({'v': pred_value, 'how': st.sampled_from(['var', 'lit', 'cell'])}), quick=4000, thorough=150000, shards=(4, 16),
        classes=lambda c: (c['v'][0], 'how:' + c['how']), required=('number', 'text', 'logical', 'blank', 'error', 'other', 'how:cell', 'how:lit'),
        nontrivial=lambda c: c['how'] != 'lit' or c['v'][0] in ('error', 'blank'),
        rule='a value of each class (number, text incl. "", "12", "TRUE"; logical; blank; each of the 8 error codes) as variable, literal/expression or listener-served cell: '
             'ISNUMBER/ISTEXT/ISLOGICAL/ISBLANK/ISERROR true exactly on their class (hence mutually exclusive), ISNONTEXT = not ISTEXT, ISERROR = ISERR or ISNA, ISNA only on #N/A'),
    Law('parity', check_parity, quick=2000, thorough=100000, shards=(4, 8),
        strategy=st.fixed_dictionaries({'x': st.one_of(st.integers(-2 ** 53, 2 ** 53), st.integers(-2 ** 70, 2 ** 70), st.integers(0, 40).flatmap(lambda k: st.sampled_from([3 ** k, -3 ** k, 2 ** 53 + 2 * k + 1, 2 ** 53 + 2 * k, 10 ** k + 1])), st.integers(-20, 20), st.floats(-1e6, 1e6, allow_nan=False), st.integers(-40, 40).map(lambda k: k / 2.0)), 'var': st.booleans(), 'text': st.integers(0, 5).map(lambda k: k == 0)}),
        nontrivial=lambda c: c['x'] < 0 or isinstance(c['x'], float),
        rule='finite numbers of either sign - integers up to 2^70 in magnitude (exact Python integers, as 3^40 evaluates to), floats and halves up to 1e6: ISEVEN/ISODD report the parity of the integer part and are complementary; one case in six hands the number over as text, which both functions must treat alike'),
]

LEVEL_TEXT = 'Hypothesis exploration of the truth-functional laws over generated tuples with regrouping into nested arrays, of IF/IFS/SWITCH selection incl. the default-equals-target corner, of error values in every tested position, and of the predicate x value-class matrix through variables, literals and cells.'
LEVEL_NOTE = 'Trusted: the reference truth-value function and selection rules in hx/checks/c12.py, written from the statement.'
TECHNIQUE = 'Hypothesis property testing against a reference truth-functional model; predicate/value-class matrix'
