"""C13 - date serial numbers: invertible, monotone, Excel 1900 system."""
import datetime
import os
from fractions import Fraction

from hypothesis import strategies as st

from .. import snapshot
from ..env import hot, Env, pev
from ..law import Law, Violation, Skip
from ..ref import dates as rd
from ..values import dec, enc, is_err

RULE = 'C13: every calendar day 1900-01-01..9999-12-31 swept; date-times at millisecond resolution and day offsets generated'
ASSUMPTIONS = ['reference serial = ordinal(d) - ordinal(1899-12-30) + time of day / 86400 (datetime.toordinal), asserted from 1 March 1900 on',
               'results that fall before 1 March 1900 (incl. the phantom serial 60) or after 9999-12-31 are excluded and counted',
               'tolerance: 1 ms on date-times, 1e-9 days on fractional serials, exact on whole-day serials']

MS = datetime.timedelta(milliseconds=1)
CHUNK = 2000


def U():
    snapshot.load()
    from hotxlfp.formulas import utils
    return utils


def close_dt(a, b):
    return isinstance(a, datetime.datetime) and abs(a - b) <= MS


# ---------------------------------------------------------------- direct sweep of every day

def enum_days_direct(tier, shard, nshards):
    starts = list(range(rd.FIRST_ORD, rd.LAST_ORD + 1, CHUNK))
    for i, s in enumerate(starts):
        if i % nshards == shard:
            yield [s, min(CHUNK, rd.LAST_ORD + 1 - s)]


def check_days_direct(case):
    start, count = case
    u = U()
    prev = None
    for o in range(start - 1 if start > rd.FIRST_ORD else start, start + count):
        d = datetime.datetime.fromordinal(o)
        s = u.serialize_date(d)
        if isinstance(s, bool) or not isinstance(s, (int, float)):
            raise Violation('serialize_date(%s) = %r is not a number' % (d.date(), s), repr(s), None, case=[o, 1])
        back = u.parse_date(s)
        if not close_dt(back, d):
            raise Violation('parse_date(serialize_date(%s)) = %r' % (d.date(), back), enc(back), enc(d), case=[o, 1])
        if prev is not None and not (prev < s):
            raise Violation('serial not strictly increasing: %s -> %r but previous day -> %r' % (d.date(), s, prev), s, prev, case=[o - 1, 2])
        prev = s
        if o >= rd.MAR1_ORD:
            k = o - rd.EPOCH_ORD
            if s != k:
                raise Violation('serial of %s is %r, Excel 1900 system says %d' % (d.date(), s, k), s, k, case=[o, 1])
            d2 = u.parse_date(k)
            if d2 != d:
                raise Violation('parse_date(%d) = %r, expected %s' % (k, d2, d.date()), enc(d2), enc(d), case=[o, 1])
            s2 = u.serialize_date(d2)
            if s2 != k:
                raise Violation('serial %d -> date -> %r' % (k, s2), s2, k, case=[o, 1])
            # noon: time of day is the fraction
            dn = d + datetime.timedelta(hours=12)
            sn = u.serialize_date(dn)
            if sn != k + 0.5:
                raise Violation('serial of %s is %r, expected %r' % (dn, sn, k + 0.5), sn, k + 0.5, case=[o, 1])


# ---------------------------------------------------------------- every day through the public API

def special_ordinals():
    out = set()
    for o in range(rd.FIRST_ORD, rd.FIRST_ORD + 366):
        out.add(o)
    for y in list(range(1900, 2101)) + list(range(2100, 10000, 100)) + [9998, 9999]:
        for m in range(1, 13):
            last = rd.month_len(y, m)
            out.add(datetime.date(y, m, last).toordinal())
            out.add(datetime.date(y, m, 1).toordinal())
    out.add(rd.LAST_ORD)
    return out


def enum_days_api(tier, shard, nshards):
    if tier == 'thorough':
        for o in range(rd.FIRST_ORD + shard, rd.LAST_ORD + 1, nshards):
            yield o
    else:
        sel = special_ordinals()
        sel.update(range(rd.FIRST_ORD + 5, rd.LAST_ORD + 1, 211))
        for o in sorted(sel):
            if o % nshards == shard:
                yield o


def check_day_api(o):
    d = datetime.date.fromordinal(o)
    D = 'DATE(%d,%d,%d)' % (d.year, d.month, d.day)
    if o < rd.MAR1_ORD:
        # January / February 1900: only invertibility and strict monotonicity are stated
        nxt = datetime.date.fromordinal(o + 1)
        N = 'DATE(%d,%d,%d)' % (nxt.year, nxt.month, nxt.day)
        f = '{YEAR(DATEVALUE(%s)),MONTH(DATEVALUE(%s)),DAY(DATEVALUE(%s)),DATEVALUE(%s)<DATEVALUE(%s),%s<%s,N(%s)=DATEVALUE(%s)}' % (D, D, D, D, N, D, N, D, D)
        want = [d.year, d.month, d.day, True, True, True]
        r = pev(f)
        if r['error'] is not None or r['result'] != want:
            raise Violation('%s -> %r, expected %r' % (f, r, want), enc(r['result']) if r['error'] is None else r['error'], want)
        return
    k = o - rd.EPOCH_ORD
    parts = ['DATEVALUE(%s)' % D, 'N(%s)' % D, 'YEAR(%d)' % k, 'MONTH(%d)' % k, 'DAY(%d)' % k,
             '%s-DATE(1900,3,1)' % D, 'DAYS(%s,DATE(1900,3,1))' % D, '%s=%d' % (D, k), '%s<%d' % (D, k + 1), '%s>%d' % (D, k - 1),
             '%s<=%d' % (D, k), '%s>=%d' % (D, k), '%s<>%d' % (D, k), '%d=%s' % (k, D)]
    want = [k, k, d.year, d.month, d.day, k - 61, k - 61, True, True, True, True, True, False, True]
    if o < rd.LAST_ORD:
        parts.append('%s+1' % D)
        want.append(datetime.datetime.fromordinal(o + 1))
        parts.append('1+%s' % D)
        want.append(datetime.datetime.fromordinal(o + 1))
    if o > rd.MAR1_ORD:
        parts.append('%s-1' % D)
        want.append(datetime.datetime.fromordinal(o - 1))
    f = '{' + ','.join(parts) + '}'
    r = pev(f)
    if r['error'] is not None:
        raise Violation('%s -> error %s' % (f, r['error']), r['error'], enc(want))
    got = r['result']
    if not isinstance(got, list) or len(got) != len(want):
        raise Violation('%s -> %r' % (f, got), enc(got), enc(want))
    for p, g, w in zip(parts, got, want):
        ok = close_dt(g, w) if isinstance(w, datetime.datetime) else (not isinstance(g, datetime.datetime) and (isinstance(g, bool) == isinstance(w, bool)) and g == w)
        if not ok:
            raise Violation('%s = %r, expected %r' % (p, g, w), enc(g), enc(w))


# ---------------------------------------------------------------- Hypothesis: date-times at ms resolution

def dt_strategy(min_ord=rd.FIRST_ORD):
    ords = st.one_of(
        st.integers(min_ord, rd.LAST_ORD),
        st.integers(min_ord, max(min_ord, rd.FIRST_ORD + 70)),
        st.sampled_from([rd.MAR1_ORD - 1, rd.MAR1_ORD, rd.MAR1_ORD + 1, rd.FIRST_ORD, rd.FIRST_ORD + 1, rd.LAST_ORD,
                         datetime.date(2000, 2, 29).toordinal(), datetime.date(2100, 2, 28).toordinal(),
                         datetime.date(1999, 12, 31).toordinal()]).filter(lambda o: o >= min_ord))
    ms = st.one_of(st.integers(0, 86399999), st.sampled_from([0, 1, 2, 999, 1000, 43200000, 86399998, 86399999]))
    return st.tuples(ords, ms).map(lambda t: (datetime.datetime.fromordinal(t[0]) + datetime.timedelta(milliseconds=t[1])).isoformat())


def getdt(s):
    return datetime.datetime.fromisoformat(s)


def check_roundtrip(case):
    a = getdt(case)
    u = U()
    s = u.serialize_date(a)
    if isinstance(s, bool) or not isinstance(s, (int, float)):
        raise Violation('serialize_date(%s) = %r' % (a, s), repr(s), None)
    back = u.parse_date(s)
    if not close_dt(back, a):
        raise Violation('parse_date(serialize_date(%s)) = %s' % (a, back), enc(back), enc(a))
    env = Env(vars={'v_a': a}, cells={'B2': a}, ranges={'C1:C2': [a, a]})
    for f in ('DATEVALUE(v_a)', 'N(v_a)', 'N(B2)', 'DATEVALUE(B2)', 'INDEX(C1:C2,2)+0*N(B2)' if False else 'N(INDEX(C1:C2,2))'):
        r = env.parse(f)
        if r['error'] is not None or r['result'] != s:
            raise Violation('%s with v_a=%s -> %r but the serial is %r' % (f, a, r, s), enc(r['result']), s)
    for f, w in (('YEAR(N(v_a))', a.year), ('MONTH(N(v_a))', a.month), ('DAY(N(v_a))', a.day)):
        # the components read back from the serial are those of the date (time >= 23:59:59.9995 may round up a day)
        if a.hour == 23 and a.minute == 59 and a.second == 59 and a.microsecond >= 999000:
            continue
        r = env.parse(f)
        if r['error'] is not None or r['result'] != w:
            raise Violation('%s with v_a=%s -> %r, expected %r' % (f, a, r, w), enc(r['result']), w)
    if a >= rd.MAR1_1900:
        ref = rd.serial_exact(a)
        if abs(Fraction(s) - ref) > Fraction(1, 10 ** 9):
            raise Violation('serial of %s is %r, Excel 1900 system says %r' % (a, s, float(ref)), s, float(ref))
        if a.microsecond == 0 and a.second == 0 and a.minute == 0 and a.hour == 0 and s != ref:
            raise Violation('whole-day serial of %s is %r, expected %d' % (a, s, ref), s, int(ref))
        # serial -> date -> serial
        s2 = u.serialize_date(u.parse_date(s))
        if abs(s2 - s) > 1e-8:
            raise Violation('serial %r -> date -> %r' % (s, s2), s2, s)


def check_monotone(case):
    a, b = sorted(getdt(x) for x in case)
    if a == b:
        raise Skip('equal')
    u = U()
    sa, sb = u.serialize_date(a), u.serialize_date(b)
    if not (sa < sb):
        raise Violation('%s < %s but serials %r, %r are not strictly increasing' % (a, b, sa, sb), [sa, sb], None)
    env = Env(vars={'v_a': a, 'v_b': b})
    env = Env(vars={'v_a': a, 'v_b': b}, cells={'B2': a, 'C3': b})
    want = {'v_a<v_b': True, 'v_a>v_b': False, 'v_a=v_b': False, 'v_a<=v_b': True, 'v_b>=v_a': True, 'v_a<>v_b': True,
            'N(v_a)<N(v_b)': True, 'DATEVALUE(v_b)>DATEVALUE(v_a)': True, 'B2<C3': True, 'C3>v_a': True, 'B2=v_a': True, 'C3-B2>0': True}
    for f, w in want.items():
        r = env.parse(f)
        if r['error'] is not None or r['result'] is not w:
            raise Violation('%s with v_a=%s v_b=%s -> %r' % (f, a, b, r), enc(r['result']), w)
    # a date against a number: every operator answers as the serial does, on either side, whatever the size of the number
    import math, operator
    ops = {'<': operator.lt, '>': operator.gt, '=': operator.eq, '<=': operator.le, '>=': operator.ge, '<>': operator.ne}
    for k, x in enumerate((sb, int(math.floor(sa)), int(math.floor(sa)) + 1, 0, -1, 2 ** 53 + 1, 10 ** 309, -(10 ** 400))):
        env.P.set_variable('v_x', x)
        for sym, fn in ops.items():
            for f, w in (('v_a%sv_x' % sym, fn(sa, x)), ('v_x%sv_a' % sym, fn(x, sa)), ('B2%sv_x' % sym, fn(sa, x))):
                r = env.parse(f)
                if r['error'] is not None or r['result'] is not w:
                    raise Violation('%s with v_a = B2 = %s (serial %r) and v_x = %s -> %r, the serial answers %r' % (f, a, sa, x if abs(x) < 10 ** 20 else 'an integer of %d bits' % x.bit_length(), r, w), enc(r['result']), w)


offsets = st.one_of(st.sampled_from([0, 1, -1, 59, -59, 60, -60, 61, -61, 365, -365, 366, -366, 36524, -36524]),
                    st.integers(-3000000, 3000000), st.integers(-400, 400),
                    st.tuples(st.integers(-40000, 40000), st.integers(1, 6)).map(lambda t: t[0] / float(2 ** t[1])))


def check_add_days(case):
    a = getdt(case['d'])
    n = case['n']
    if a < rd.MAR1_1900:
        raise Skip('start-before-1mar1900')
    if case.get('derived') == 1 and isinstance(n, int):
        # the host computes money with five significant digits in this thread; date arithmetic is not its business
        import decimal
        with decimal.localcontext() as ctx:
            ctx.prec = 5
            return check_add_days(dict(case, derived=3))
    if case.get('derived') in (1, 2):
        from ..values import SubDatetime, SubInt, SubFloat
        a = SubDatetime.of(a)
        if case['derived'] == 2 and not isinstance(n, bool):
            n = SubInt(n) if isinstance(n, int) else SubFloat(n)
    ref_serial = rd.serial_exact(a) + Fraction(n)
    ref_minus = rd.serial_exact(a) - Fraction(n)
    env = Env(vars={'v_a': a, 'v_n': n})
    judged = 0
    for f, rs in (('v_a+v_n', ref_serial), ('v_n+v_a', ref_serial), ('v_a-v_n', ref_minus)):
        if rs < 61 or rs >= 2958466:
            continue
        want = rd.from_serial_exact(rs)
        r = env.parse(f)
        judged += 1
        if r['error'] is not None or not close_dt(r['result'], want):
            raise Violation('%s with v_a=%s v_n=%r -> %r, expected %s' % (f, a, n, r, want), enc(r['result']) if r['error'] is None else r['error'], enc(want))
    if isinstance(n, int) and a.time() == datetime.time(0) and 61 <= ref_serial < 2958466 and n >= 0:
        want = rd.from_serial_exact(ref_serial)
        f = 'DATE(%d,%d,%d)+%d' % (a.year, a.month, a.day, n)
        r = pev(f)
        judged += 1
        if r['error'] is not None or not close_dt(r['result'], want):
            raise Violation('%s -> %r, expected %s' % (f, r, want), enc(r['result']) if r['error'] is None else r['error'], enc(want))
    if not judged:
        raise Skip('result-outside-1mar1900..9999')
    # the same through an array of offsets (a host list and a literal): element k is the date n+k days later
    offs = [n, n + 1, n + 30]
    if all(61 <= ref_serial + k < 2958466 for k in (0, 1, 30)) and all(61 <= rd.serial_exact(a) - Fraction(o) < 2958466 for o in offs):
        env2 = Env(vars={'v_a': a, 'v_o': list(offs)})
        forms = [('v_o+v_a', 1), ('v_a+v_o', 1), ('v_a-v_o', -1)]
        if isinstance(n, int):
            forms.append(('v_a+{%s}' % ','.join(str(o) if o >= 0 else '-%d' % -o for o in offs), 1))
        for f, sign in forms:
            r = env2.parse(f)
            g = r['result']
            wants = [rd.from_serial_exact(rd.serial_exact(a) + sign * Fraction(o)) for o in offs]
            if r['error'] is not None or not isinstance(g, list) or len(g) != 3 or not all(close_dt(x, w) for x, w in zip(g, wants)):
                raise Violation('%s with v_a=%s and offsets %r -> %r, expected the dates %s' % (f, a, offs, r['error'] or g, [str(w) for w in wants]), r['error'] or enc(g), enc(wants))


# ---------------------------------------------------------------- around the day that does not exist (serial 60), in any order

LEAP_STEPS = ['YEAR(60)', 'DATE(1900,3,2)-2', 'DAY(60.5)', 'N(DATE(1900,3,1))', 'DATE(1900,3,1)+1', 'YEAR(61)', 'DATE(1900,2,28)+1', 'DATEVALUE("1900-03-01")', 'MONTH(59)', 'DATE(1900,3,1)-1', 'DAYS(61,60)', 'HOUR(60.25)']
LEAP_FACTS = [('N(DATE(1900,3,1))', 61), ('DATE(1900,3,2)-DATE(1900,3,1)', 1), ('DATE(1900,3,1)-DATE(1900,2,28)', 2), ('DATE(1900,3,1)=61', True), ('DATE(1900,3,1)>60', True), ('DAY(DATE(1900,3,1)+1)', 2), ('N(DATE(1900,2,28))', 59)]


def enum_leap(tier, shard, nshards):
    import itertools
    n = 0
    for r in (2, 3):
        for perm in itertools.permutations(range(len(LEAP_STEPS)), r):
            n += 1
            if n % nshards == shard and (tier == 'thorough' or n % 7 == 0):
                yield list(perm)


def check_leap(case):
    P = hot().Parser()
    for i in case:
        P.parse(LEAP_STEPS[i])
        for f, want in LEAP_FACTS:
            r = P.parse(f)
            if r['error'] is not None or r['result'] != want:
                raise Violation('after %r (in this order, in a process that has evaluated other formulas before) %s gives %r instead of %r' % ([LEAP_STEPS[j] for j in case[:case.index(i) + 1]], f, r['error'] or r['result'], want),
                                r['error'] or enc(r['result']), want)


# ---------------------------------------------------------------- the process time zone does not matter

TZ_FORMULAS = ['N(DATE(2019,7,1))', 'DATE(2019,7,1)-DATE(2019,1,1)', 'DAYS(DATE(2019,7,1),DATE(2019,1,1))', 'DATE(2019,3,10)+1', 'DATE(2019,11,3)+1', 'DATEVALUE("2019-07-01")', 'DATEVALUE("2019-03-10 02:30:00")',
               'N(DATE(1990,4,1))', 'DATE(2019,7,1)=43647', 'DATE(2021,1,1)-0.5', '43647+DATE(1900,3,1)', 'HOUR(43647.5)&":"&MINUTE(43647.5)', 'YEAR(43647)&"-"&MONTH(43647)&"-"&DAY(43647)', 'N(v_d)', 'v_d+40000',
               'DATE(2019,3,31)-DATE(2019,3,30)', 'DATE(2019,10,27)-DATE(2019,10,26)', 'DATE(2015,6,30)+1.75', 'N("2019-03-31T01:30:00")', 'DATE(9999,12,31)-DATE(1900,3,1)', 'EDATE(DATE(2019,3,31),-1)', 'WEEKDAY(DATE(2019,3,10))']
ZONES = ['America/New_York', 'Europe/London', 'Australia/Lord_Howe', 'Asia/Tokyo', 'America/St_Johns', 'Pacific/Apia']


def enum_tz(tier, shard, nshards):
    zones = ZONES[:3] if tier == 'quick' else ZONES
    for i, z in enumerate(zones):
        if i % nshards == shard:
            yield z


def check_tz(zone):
    from ..freshproc import run_fresh
    if not os.path.exists('/usr/share/zoneinfo/' + zone):
        raise Skip('zone-data-missing')
    base = run_fresh(TZ_FORMULAS, env_extra={'TZ': 'UTC'})
    other = run_fresh(TZ_FORMULAS, env_extra={'TZ': zone})
    for f, a, b in zip(TZ_FORMULAS, base, other):
        if a != b:
            raise Violation('in a process whose time zone is %s, %s gives %s; under UTC it gives %s (a serial counts days on the calendar, whatever the zone of the process)' % (zone, f, b, a), b, a)


def check_difference(case):
    a, b = getdt(case[0]), getdt(case[1])
    # whatever the serials are (January/February 1900 included): DAYS, the - operator, N and DATEVALUE see the same ones
    env0 = Env(vars={'v_a': a, 'v_b': b})
    r0 = env0.parse('{DAYS(v_a,v_b),v_a-v_b,N(v_a)-N(v_b),DATEVALUE(v_a)-DATEVALUE(v_b)}')
    l = r0['result']
    if r0['error'] is not None or not isinstance(l, list) or len(l) != 4 or any(isinstance(x, bool) or not isinstance(x, (int, float)) for x in l):
        raise Violation('DAYS / - / N / DATEVALUE on v_a=%s v_b=%s -> %r' % (a, b, r0['error'] or l), r0['error'] or enc(l), 'four numbers')
    if max(l) - min(l) > 2e-9:
        raise Violation('DAYS(a,b), a-b, N(a)-N(b), DATEVALUE(a)-DATEVALUE(b) = %r for a=%s b=%s: they do not see the same serials' % (l, a, b), enc(l), None)
    if a < rd.MAR1_1900 or b < rd.MAR1_1900:
        return          # before 1 March 1900 only the agreement above is stated
    env = Env(vars={'v_a': a, 'v_b': b})
    want = rd.serial_exact(a) - rd.serial_exact(b)
    whole = a.time() == datetime.time(0) and b.time() == datetime.time(0)
    for f in ('v_a-v_b', 'DAYS(v_a,v_b)', 'N(v_a)-N(v_b)', 'DATEVALUE(v_a)-DATEVALUE(v_b)'):
        r = env.parse(f)
        g = r['result']
        if r['error'] is not None or isinstance(g, bool) or not isinstance(g, (int, float)):
            raise Violation('%s with v_a=%s v_b=%s -> %r' % (f, a, b, r), enc(g) if r['error'] is None else r['error'], float(want))
        if (whole and g != want) or abs(Fraction(g) - want) > Fraction(2, 10 ** 9):
            raise Violation('%s with v_a=%s v_b=%s = %r, days between them = %r' % (f, a, b, g, float(want)), g, float(want))
    # the comparison operators see the serial
    sa = rd.serial_exact(a)
    k = int(sa // 1)
    frac = sa != k
    probes = [('v_a>=%d' % k, True), ('v_a<%d' % (k + 1), True), ('v_a<%d' % k, False), ('%d<=v_a' % k, True),
              # the number on the left, the date-time on the right: the time of day must still count
              ('%d<v_a' % k, frac), ('%d=v_a' % k, not frac), ('%d>=v_a' % k, not frac), ('%d>v_a' % (k + 1), True), ('%d<>v_a' % k, frac), ('v_a>%d' % k, frac)]
    for f, w in probes:
        r = env.parse(f)
        if r['error'] is not None or r['result'] is not w:
            raise Violation('%s with v_a=%s -> %r (serial %r)' % (f, a, r, float(sa)), enc(r['result']), w)


def has_time(s):
    return not s.endswith('T00:00:00')


LAWS = [
    Law('days_direct', check_days_direct, enumerate=enum_days_direct, exhaustive=True, shards=(16, 16),
        weight=lambda c: c[1], key=lambda c: 'day:%d' % c[0] if c[1] <= 2 else '',
        rule='every calendar day 1900-01-01..9999-12-31 (2958464) through serialize_date/parse_date: round trip, strict increase over the previous day, '
             'Excel serial and serial->date->serial from 1 March 1900 on (every integer serial 61..2958465), noon = serial + 0.5; all days distinct, all counted non-trivial'),
    Law('days_api', check_day_api, enumerate=enum_days_api, exhaustive='thorough', shards=(16, 16),
        nontrivial=lambda o: o not in (737383, 734787),
        classes=lambda o: (('janfeb1900' if o < rd.MAR1_ORD else 'from1mar1900'),), required=('janfeb1900', 'from1mar1900'),
        key=lambda o: 'boundary-1mar1900' if o == rd.MAR1_ORD else ('janfeb1900' if o < rd.MAR1_ORD else ''),
        rule='per day one formula through parse(): DATEVALUE, N, YEAR/MONTH/DAY of the serial, DATE-DATE, DAYS, the six comparison operators against the serial, DATE+1, 1+DATE, DATE-1; '
             'all days in thorough; in quick every day of 1900, every month start/end of 1900-2100 and of century years, plus a stride-211 sweep; non-trivial = not one of the two dates the test-suite uses'),
    Law('datetimes', check_roundtrip, strategy=dt_strategy(), nontrivial=has_time, quick=3000, thorough=200000,
        classes=lambda s: (('janfeb1900' if getdt(s) < rd.MAR1_1900 else 'later'), ('near-midnight' if getdt(s).time() >= datetime.time(23, 59, 59) or getdt(s).time() <= datetime.time(0, 0, 1) else 'daytime')),
        required=('janfeb1900', 'later', 'near-midnight'),
        rule='date-times at millisecond resolution over 1900-01-01..9999-12-31, biased to the first 70 days and to times near midnight; round trip within 1 ms, serial vs reference within 1e-9, DATEVALUE/N see the same serial whether the date-time is a variable, a listener-served cell or an element of a listener-served range; non-trivial = has a time of day'),
    Law('monotone', check_monotone, strategy=st.one_of(st.tuples(dt_strategy(), dt_strategy()).map(list),
                                                        st.tuples(dt_strategy(), st.integers(1, 5000)).map(lambda t: [t[0], (getdt(t[0]) + datetime.timedelta(milliseconds=t[1])).isoformat()] if getdt(t[0]).year < 9999 else [t[0], t[0]])),
        quick=2000, thorough=100000, nontrivial=lambda c: has_time(c[0]) or has_time(c[1]),
        rule='pairs of date-times, arbitrary and 1-5000 ms apart: serials strictly ordered like the date-times; all six comparison operators, N and DATEVALUE agree; each date against eight numbers (the other serial, the whole days around its own, 0, -1, 2^53+1, 10^309, -10^400) on either side of every operator answers as its serial does'),
    Law('add_days', check_add_days, strategy=st.fixed_dictionaries({'d': dt_strategy(rd.MAR1_ORD), 'n': offsets, 'derived': st.sampled_from([0, 0, 0, 1, 2])}), quick=2000, thorough=100000,
        nontrivial=lambda c: c['n'] not in (0, 1) ,
        rule='date-time >= 1 March 1900 and offset n (boundary set, +-3e6 integers, dyadic fractions): date+n, n+date, date-n equal the reference date within 1 ms when it lies in 1 March 1900..9999, also element-wise over an array of offsets; in 2 of 5 cases the date-time (and the offset) are instances of classes that derive from datetime (int, float)'),
    Law('leap_day_histories', check_leap, enumerate=enum_leap, shards=(8, 16),
        rule='2-3 of 12 formulas that convert serials 59, 60, 60.25, 60.5, 61 and the dates around 1 March 1900, in every order (a seventh of the 1452 orders in quick): after each step seven facts about 1 March 1900 (serial 61, one day after 28 February + 1, ...) must hold'),
    Law('timezone_independence', check_tz, enumerate=enum_tz, shards=(3, 6), guard=400,
        rule='22 formulas over dates, serials, differences and date text are evaluated in a brand-new interpreter under TZ=UTC and under a zone with daylight saving (New York, London, Lord Howe; in thorough also Tokyo, St John\'s, Apia): every outcome is the same'),
    Law('difference', check_difference, strategy=st.one_of(st.tuples(dt_strategy(rd.MAR1_ORD), dt_strategy(rd.MAR1_ORD)), st.tuples(dt_strategy(rd.MAR1_ORD), dt_strategy(rd.MAR1_ORD)),
                                                            st.tuples(dt_strategy(), dt_strategy())).map(list), quick=2000, thorough=100000,
        classes=lambda c: (('straddles-1mar1900' if (getdt(c[0]) < rd.MAR1_1900) != (getdt(c[1]) < rd.MAR1_1900) else 'same-side'),), required=('straddles-1mar1900',),
        nontrivial=lambda c: c[0] != c[1],
        rule='pairs of date-times from 1 January 1900 on: DAYS(a,b), a-b, N(a)-N(b), DATEVALUE(a)-DATEVALUE(b) agree with each other (also across the 1 March 1900 boundary); for pairs >= 1 March 1900 they equal the days between them (exact for whole days); comparisons of a date with integers on either side see its serial'),
]

LEVEL_TEXT = 'All orders of 2-3 conversions around serial 60; fresh interpreters under time zones with daylight saving; The calendar-day quantifier is closed by exhaustive enumeration (all 2958464 days and all integer serials 61..2958465 through serialize_date/parse_date in both tiers; through parse() for every day in the thorough tier). Millisecond date-times, offsets and pairs are explored with Hypothesis.'
LEVEL_NOTE = 'Trusted: datetime.toordinal as the calendar, the reference serial in hx/ref/dates.py. Results outside 1 March 1900..9999-12-31 are excluded (counted) because the statement does not define them.'
TECHNIQUE = 'exhaustive sweep of the finite calendar + Hypothesis round-trip/monotonicity/reference-model testing'
