"""C14 - date and time functions agree with the proleptic Gregorian calendar."""
import datetime

from hypothesis import strategies as st

from ..env import Env, pev
from ..law import Law, Violation, Skip
from ..ref import dates as rd
from ..values import enc

RULE = 'C14: calendar days and (h,m,s) triples swept; date pairs and month offsets generated'
ASSUMPTIONS = ['reference = datetime.date / calendar.monthrange',
               'DATEDIF m / y / ym are asserted only where the day-of-month reading and the clamped-month reading of "whole months" agree; other pairs are counted as ambiguous',
               'WEEKDAY types other than 1-3 are generated as numbers only; logical and text types are not decided by the statement']


def fail(f, r, want):
    raise Violation('%s -> %r, expected %r' % (f, r['error'] if r['error'] is not None else r['result'], want),
                    r['error'] if r['error'] is not None else enc(r['result']), enc(want))


def expect(f, want, env=None):
    r = env.parse(f) if env is not None else pev(f)
    if r['error'] is not None:
        fail(f, r, want)
    g = r['result']
    if isinstance(want, list):
        ok = isinstance(g, list) and len(g) == len(want) and all(type(a) == type(b) and a == b for a, b in zip(g, want))
    else:
        ok = type(g) == type(want) and g == want
    if not ok:
        fail(f, r, want)


def expect_err(f, code, env=None):
    r = env.parse(f) if env is not None else pev(f)
    if r['error'] != code:
        fail(f, r, code)


# ---------------------------------------------------------------- every day: components and weekday

def special_ordinals():
    out = set()
    for y in (1900, 1904, 2000, 2019, 2020, 2100, 2400, 9999):
        first = datetime.date(y, 1, 1).toordinal()
        out.update(range(first, datetime.date(y, 12, 31).toordinal() + 1))
    for y in range(1900, 10000, 7):
        for m in range(1, 13):
            out.add(datetime.date(y, m, rd.month_len(y, m)).toordinal())
    return out


def enum_days(tier, shard, nshards):
    if tier == 'thorough':
        for o in range(rd.FIRST_ORD + shard, rd.LAST_ORD + 1, nshards):
            yield o
    else:
        sel = special_ordinals()
        sel.update(range(rd.FIRST_ORD + 3, rd.LAST_ORD + 1, 173))
        for o in sorted(sel):
            if o % nshards == shard:
                yield o


def check_day(o):
    d = datetime.date.fromordinal(o)
    D = 'DATE(%d,%d,%d)' % (d.year, d.month, d.day)
    iso = '"%04d-%02d-%02d"' % (d.year, d.month, d.day)
    h, mi, s = (o * 7) % 24, (o * 11) % 60, (o * 13) % 60
    sep = 'T' if o % 2 else ' '
    isot = '"%04d-%02d-%02d%s%02d:%02d:%02d"' % (d.year, d.month, d.day, sep, h, mi, s)
    wd = d.weekday()            # Monday = 0
    w1 = (wd + 1) % 7 + 1        # Sunday = 1 .. Saturday = 7
    parts = ['YEAR(%s)' % D, 'MONTH(%s)' % D, 'DAY(%s)' % D,
             'YEAR(%s)' % iso, 'MONTH(%s)' % iso, 'DAY(%s)' % iso,
             'YEAR(%s)' % isot, 'MONTH(%s)' % isot, 'DAY(%s)' % isot, 'HOUR(%s)' % isot, 'MINUTE(%s)' % isot, 'SECOND(%s)' % isot,
             'WEEKDAY(%s)' % D, 'WEEKDAY(%s,1)' % D, 'WEEKDAY(%s,2)' % D, 'WEEKDAY(%s,3)' % D, 'WEEKDAY(%s,2)' % iso]
    want = [d.year, d.month, d.day] * 3 + [h, mi, s, w1, w1, wd + 1, wd, wd + 1]
    # ISO text with a fraction of a second: the components are the ones written (nothing is rounded up into the next second, minute ... year)
    isof = isot[:-1] + ['.750', '.5', '.999', '.900', '.250', '.001'][o % 6] + '"'
    parts += ['SECOND(%s)' % isof, 'MINUTE(%s)' % isof, 'HOUR(%s)' % isof, 'DAY(%s)' % isof, 'YEAR(%s)' % isof]
    want += [s, mi, h, d.day, d.year]
    # ISO text with a UTC designator: the components are the ones written (an offset is not a reason to shift the clock)
    isoz = isot[:-1] + ['Z', '+00:00', '+02:00', '-05:00', '+05:30', '-11:00', '+14:00'][o % 7] + '"'
    parts += ['YEAR(%s)' % isoz, 'MONTH(%s)' % isoz, 'DAY(%s)' % isoz, 'HOUR(%s)' % isoz, 'MINUTE(%s)' % isoz, 'SECOND(%s)' % isoz, 'WEEKDAY(%s,2)' % isoz]
    want += [d.year, d.month, d.day, h, mi, s, wd + 1]
    if o >= rd.MAR1_ORD:
        k = o - rd.EPOCH_ORD
        parts += ['YEAR(%d)' % k, 'MONTH(%d)' % k, 'DAY(%d)' % k, 'WEEKDAY(%d,3)' % k]
        want += [d.year, d.month, d.day, wd]
        # the same serial held as text (a cell formatted as text): digits only are a number, whatever their count
        parts += ['YEAR("%d")' % k, 'MONTH("%d")' % k, 'DAY("%d")' % k]
        want += [d.year, d.month, d.day]
    # components written with leading zeros (as in a date typed 2020-01-05) are the same numbers
    Z = 'DATE(%04d,%02d,%02d)' % (d.year, d.month, d.day)
    parts += ['YEAR(%s)' % Z, 'MONTH(%s)' % Z, 'DAY(%s)' % Z]
    want += [d.year, d.month, d.day]
    f = '{' + ','.join(parts) + '}'
    r = pev(f)
    if r['error'] is not None or not isinstance(r['result'], list) or len(r['result']) != len(want):
        fail(f, r, want)
    for p, g, w in zip(parts, r['result'], want):
        if isinstance(g, bool) or g != w:
            raise Violation('%s = %r, expected %r' % (p, g, w), enc(g), w)


# ---------------------------------------------------------------- every (h, m, s)

def enum_hms(tier, shard, nshards):
    for h in range(24):
        if h % nshards == shard % 24 and shard < 24:
            yield h
    # with nshards <= 24 every hour is covered exactly once


def check_hour(h):
    for m in range(60):
        parts = []
        want = []
        for s in range(60):
            T = 'TIME(%d,%d,%d)' % (h, m, s)
            parts += ['HOUR(%s)' % T, 'MINUTE(%s)' % T, 'SECOND(%s)' % T]
            want += [h, m, s]
        f = '{' + ','.join(parts) + '}'
        r = pev(f)
        if r['error'] is not None or not isinstance(r['result'], list) or len(r['result']) != len(want):
            fail(f[:80] + '...', r, want[:6])
        for p, g, w in zip(parts, r['result'], want):
            if isinstance(g, bool) or g != w:
                raise Violation('%s = %r, expected %r' % (p, g, w), enc(g), w)


# ---------------------------------------------------------------- years 0..1899 mean 1900 + year

def enum_year_offset(tier, shard, nshards):
    reps = 12 if tier == 'thorough' else 2
    for y in range(0, 1900):
        if y % nshards != shard:
            continue
        for j in range(reps):
            m = (y * 5 + j * 7) % 12 + 1
            dmax = rd.month_len(1900 + y, m)
            d = [1, dmax, (y * 3 + j) % dmax + 1][(y + j) % 3]
            yield [y, m, d]
        # the days that exist only because of the offset: 29 February of 1900+y when that is a leap year although y is not, and the other way round (an error either way must match DATE(1900+y,..))
        if rd.month_len(1900 + y, 2) == 29:
            yield [y, 2, 29]
            yield [y, 3, 1]


def check_year_offset(case):
    y, m, d = case
    D = 'DATE(%d,%d,%d)' % (y, m, d)
    expect('{YEAR(%s),MONTH(%s),DAY(%s)}' % (D, D, D), [1900 + y, m, d])
    D2 = 'DATE(%d,%d,%d)' % (1900 + y, m, d)
    expect('%s=%s' % (D, D2), True)


# ---------------------------------------------------------------- DAYS / DATEDIF

def ord_s():
    return st.one_of(st.integers(rd.MAR1_ORD, rd.LAST_ORD), st.integers(rd.MAR1_ORD, datetime.date(2100, 1, 1).toordinal()))


@st.composite
def date_pair(draw):
    a = draw(ord_s())
    kind = draw(st.integers(0, 6))
    if kind == 6:       # the first day after the gap in the serials: 1 March 1900 against a nearby or a far date
        a = rd.MAR1_ORD
        kind = draw(st.sampled_from([0, 1]))
    if kind == 0:
        b = draw(ord_s())
    elif kind == 1:
        b = a + draw(st.integers(-40, 40))
    elif kind == 2:      # same day of month, other month/year
        da = datetime.date.fromordinal(a)
        y, m = rd.add_months(da.year, da.month, draw(st.integers(-400, 400)))
        y = min(max(y, 1901), 9999)
        b = datetime.date(y, m, min(da.day, rd.month_len(y, m))).toordinal()
    elif kind == 3:      # month ends
        da = datetime.date.fromordinal(a)
        a = datetime.date(da.year, da.month, rd.month_len(da.year, da.month)).toordinal()
        y, m = rd.add_months(da.year, da.month, draw(st.integers(-30, 30)))
        y = min(max(y, 1901), 9999)
        b = datetime.date(y, m, rd.month_len(y, m)).toordinal()
    elif kind == 4:      # 29 Feb pairs
        ya = draw(st.integers(476, 2499)) * 4
        ya = ya if (ya % 100 != 0 or ya % 400 == 0) else ya + 4
        a = datetime.date(ya, 2, 29).toordinal()
        yb = draw(st.integers(1901, 9999))
        b = datetime.date(yb, draw(st.sampled_from([2, 3])), draw(st.sampled_from([1, 28]))).toordinal()
    else:
        b = a
    b = min(max(b, rd.MAR1_ORD), rd.LAST_ORD)
    style = draw(st.sampled_from(['lit', 'var', 'iso']))
    return {'a': a, 'b': b, 'style': style, 'upper': draw(st.booleans())}


def months_day_rule(s, e):
    return (e.year - s.year) * 12 + e.month - s.month - (1 if e.day < s.day else 0)


def months_clamped(s, e):
    k = (e.year - s.year) * 12 + e.month - s.month + 1
    while k > 0:
        y, m = rd.add_months(s.year, s.month, k)
        if y <= 9999 and datetime.date(y, m, min(s.day, rd.month_len(y, m))) <= e:
            return k
        k -= 1
    return 0


def spell(o, style, name):
    d = datetime.date.fromordinal(o)
    if style == 'lit':
        return 'DATE(%d,%d,%d)' % (d.year, d.month, d.day)
    if style == 'iso':
        return '"%04d-%02d-%02d"' % (d.year, d.month, d.day)
    return name


def check_datedif(case):
    a, b = case['a'], case['b']
    da, db = datetime.date.fromordinal(a), datetime.date.fromordinal(b)
    env = Env(vars={'v_a': datetime.datetime.fromordinal(a), 'v_b': datetime.datetime.fromordinal(b)})
    A, B = spell(a, case['style'], 'v_a'), spell(b, case['style'], 'v_b')
    U = (lambda u: u.upper()) if case['upper'] else (lambda u: u)
    r = env.parse('DAYS(%s,%s)' % (B, A))
    if r['error'] is not None or isinstance(r['result'], bool) or r['result'] != b - a:
        fail('DAYS(%s,%s)' % (B, A), r, b - a)
    if a > b:
        for u in 'dmy':
            expect_err('DATEDIF(%s,%s,"%s")' % (A, B, U(u)), '#NUM!', env)
        expect_err('DATEDIF(%s,%s,"ym")' % (A, B), '#NUM!', env)
        return
    r = env.parse('DATEDIF(%s,%s,"%s")' % (A, B, U('d')))
    if r['error'] is not None or isinstance(r['result'], bool) or r['result'] != b - a:
        fail('DATEDIF(%s,%s,"d")' % (A, B), r, b - a)
    m1, m2 = months_day_rule(da, db), months_clamped(da, db)
    if m1 != m2:
        raise Skip('whole-months-reading')
    for u, w in (('m', m1), ('y', m1 // 12), ('ym', m1 % 12)):
        f = 'DATEDIF(%s,%s,"%s")' % (A, B, U(u))
        r = env.parse(f)
        if r['error'] is not None or isinstance(r['result'], bool) or r['result'] != w:
            fail(f, r, w)


def datedif_classes(c):
    da, db = datetime.date.fromordinal(c['a']), datetime.date.fromordinal(c['b'])
    out = ['style:' + c['style']]
    if c['a'] > c['b']:
        out.append('start>end')
    elif c['a'] == c['b']:
        out.append('equal')
    if da.day >= 28 or db.day >= 28:
        out.append('month-end-ish')
    if (da.month, da.day) == (2, 29) or (db.month, db.day) == (2, 29):
        out.append('leap-day')
    return out


# ---------------------------------------------------------------- WEEKDAY other types

def check_weekday_type(case):
    o, t = case
    d = datetime.date.fromordinal(o)
    D = 'DATE(%d,%d,%d)' % (d.year, d.month, d.day)
    env = Env(vars={'v_t': t})
    expect_err('WEEKDAY(%s,v_t)' % D, '#NUM!', env)
    if isinstance(t, int):
        expect_err('WEEKDAY(%s,%s)' % (D, str(t) if t >= 0 else '-%d' % -t), '#NUM!')


# ---------------------------------------------------------------- the process time zone does not matter

TZ_FORMULAS = ['YEAR(43831)&"-"&MONTH(43831)&"-"&DAY(43831)', 'DAY(43831)', 'HOUR(43831.75)&":"&MINUTE(43831.75)', 'DAYS("2020-07-01","2020-01-01")', 'DAYS(DATE(2020,1,1),DATE(2020,7,1))', 'DATEDIF("2020-01-01","2020-07-01","d")',
               'DATEDIF(DATE(2019,3,30),DATE(2019,3,31),"d")', 'DATEDIF(DATE(2020,1,31),DATE(2020,11,1),"m")', 'WEEKDAY(43901)', 'WEEKDAY(DATE(2019,3,31),2)', 'YEAR(2958465)', 'DAY(61)&"/"&MONTH(61)', 'EDATE(DATE(2019,3,31),7)',
               'DAY(EDATE("2019-10-27",1))', 'HOUR(TIME(2,30,0))', 'SECOND("2019-03-31T02:30:15")', 'HOUR("2019-11-03 01:30:00")', 'YEAR(DATE(2019,12,31)+1)', 'DAY(44000.999)']


def enum_tz(tier, shard, nshards):
    zones = ['Europe/Berlin', 'America/New_York', 'Australia/Sydney', 'Asia/Tokyo', 'Pacific/Kiritimati', 'America/Sao_Paulo']
    for i, z in enumerate(zones[:3] if tier == 'quick' else zones):
        if i % nshards == shard:
            yield z


def check_tz(zone):
    import os
    from ..freshproc import run_fresh
    if not os.path.exists('/usr/share/zoneinfo/' + zone):
        raise Skip('zone-data-missing')
    base = run_fresh(TZ_FORMULAS, env_extra={'TZ': 'UTC'})
    other = run_fresh(TZ_FORMULAS, env_extra={'TZ': zone})
    for f, a, b in zip(TZ_FORMULAS, base, other):
        if a != b:
            raise Violation('in a process whose time zone is %s, %s gives %s; under UTC it gives %s (calendar components and day counts do not depend on the zone of the process)' % (zone, f, b, a), b, a)


# ---------------------------------------------------------------- EDATE

@st.composite
def edate_case(draw):
    o = draw(st.one_of(st.integers(rd.FIRST_ORD, rd.LAST_ORD), st.integers(rd.FIRST_ORD, datetime.date(2100, 1, 1).toordinal())))
    d = datetime.date.fromordinal(o)
    if draw(st.booleans()):
        dd = draw(st.sampled_from([28, 29, 30, 31]))
        d = datetime.date(d.year, d.month, min(dd, rd.month_len(d.year, d.month)))
    k = draw(st.one_of(st.sampled_from([0, 1, -1, 11, -11, 12, -12, 13, -13, 24, -24, 120000, -120000]),
                       st.integers(-120000, 120000), st.integers(-40, 40), st.integers(-1300, 1300)))
    if draw(st.integers(0, 3)) == 0:
        # aim at February of a century year (the leap-year rule's corner): pick the target, derive the start
        ty = draw(st.integers(19, 99)) * 100
        sy, sm = rd.add_months(ty, 2, -k)
        if 1900 <= sy <= 9999:
            dd = draw(st.sampled_from([28, 29, 30, 31]))
            d = datetime.date(sy, sm, min(dd, rd.month_len(sy, sm)))
    elif draw(st.integers(0, 6)) == 0:
        # the longest moves there are: from a month of 1900 to a month of 9999, or back
        sm, tm, dd = draw(st.integers(1, 12)), draw(st.integers(1, 12)), draw(st.sampled_from([1, 15, 28, 29, 30, 31]))
        k = (9999 - 1900) * 12 + tm - sm
        if draw(st.booleans()):
            d = datetime.date(1900, sm, min(dd, rd.month_len(1900, sm)))
        else:
            d, k = datetime.date(9999, tm, min(dd, rd.month_len(9999, tm))), -k
    return {'o': d.toordinal(), 'k': k, 'style': draw(st.sampled_from(['lit', 'var', 'iso'])), 'kvar': draw(st.booleans())}


def check_edate(case):
    o, k = case['o'], case['k']
    d = datetime.date.fromordinal(o)
    y, m = rd.add_months(d.year, d.month, k)
    env = Env(vars={'v_a': datetime.datetime.fromordinal(o), 'v_k': k})
    A = spell(o, case['style'], 'v_a')
    K = 'v_k' if case['kvar'] else (str(k) if k >= 0 else '-%d' % -k)
    how = (o + k) % 7
    if how == 0:
        # the same whole number of months arriving as a float (a quotient, a decimal literal, a host float) or as text
        env = Env(vars={'v_a': datetime.datetime.fromordinal(o), 'v_k': float(k)})
        K = 'v_k' if case['kvar'] else ('%d.0' % k if k >= 0 else '-%d.0' % -k)
    elif how == 1:
        K = '(%d/2)' % (2 * k) if k >= 0 else '(-%d/2)' % (-2 * k)
    elif how == 2 and case['kvar']:
        env = Env(vars={'v_a': datetime.datetime.fromordinal(o), 'v_k': str(k)})
    f = 'EDATE(%s,%s)' % (A, K)
    if y < 1900 or y > 9999:
        expect_err(f, '#NUM!', env)
        return
    want = datetime.datetime(y, m, min(d.day, rd.month_len(y, m)))
    r = env.parse(f)
    if r['error'] is not None or r['result'] != want:
        fail(f, r, want)
    g = '{YEAR(%s),MONTH(%s),DAY(%s)}' % (f, f, f)
    expect(g, [want.year, want.month, want.day], env)


def edate_classes(c):
    d = datetime.date.fromordinal(c['o'])
    y, m = rd.add_months(d.year, d.month, c['k'])
    out = []
    if y < 1900 or y > 9999:
        out.append('out-of-range')
    else:
        if d.day > rd.month_len(y, m):
            out.append('clamped')
        if m == 2 and d.day >= 29:
            out.append('into-february')
            if y % 100 == 0:
                out.append('into-century-february')
    if c['k'] < 0:
        out.append('negative-offset')
    if d.day >= 28:
        out.append('start-day>=28')
    return out


LAWS = [
    Law('components', check_day, enumerate=enum_days, exhaustive='thorough', shards=(16, 16),
        nontrivial=lambda o: not (737060 <= o <= 737790),
        rule='per day one formula: YEAR/MONTH/DAY of DATE(y,m,d), of ISO date text, of ISO date-time text (T or space separated; HOUR/MINUTE/SECOND too), of the whole-day serial (from 1 March 1900), '
             'WEEKDAY under types default,1,2,3; all 2958464 days in thorough; in quick all days of 8 selected years, every month end of every 7th year and a stride-173 sweep; non-trivial = outside 2019-2020'),
    Law('hms', check_hour, enumerate=enum_hms, exhaustive=True, shards=(12, 24), weight=lambda h: 3600,
        rule='all 86400 (h,m,s): HOUR/MINUTE/SECOND(TIME(h,m,s)) through parse()'),
    Law('year_offset', check_year_offset, enumerate=enum_year_offset, shards=(4, 8),
        rule='every year 0..1899 with 2 (quick) / 12 (thorough) derived month/day pairs, plus 29 February and 1 March of every y whose 1900+y is a leap year: DATE(y,m,d) has components 1900+y, m, d and equals DATE(1900+y,m,d)'),
    Law('datedif', check_datedif, strategy=date_pair(), classes=datedif_classes, quick=3000, thorough=200000,
        required=('start>end', 'equal', 'month-end-ish', 'leap-day', 'style:lit', 'style:var', 'style:iso'),
        nontrivial=lambda c: c['a'] != c['b'],
        rule='date pairs (uniform, within +-40 days, same day-of-month, month ends, 29 Feb) spelled as DATE() literals, date-time variables or ISO text; '
             'DAYS and DATEDIF d/m/y/ym (either letter case) vs datetime.date arithmetic; #NUM! when start > end; non-trivial = distinct dates'),
    Law('timezone_independence', check_tz, enumerate=enum_tz, shards=(3, 6), guard=400,
        rule='19 formulas over serials, date text, DAYS, DATEDIF, WEEKDAY, EDATE and TIME are evaluated in a brand-new interpreter under TZ=UTC and under Berlin, New York, Sydney (thorough: also Tokyo, Kiritimati, Sao Paulo): every outcome is the same'),
    Law('weekday_types', check_weekday_type, quick=300, thorough=5000, shards=(2, 4),
        strategy=st.tuples(st.integers(rd.FIRST_ORD, rd.LAST_ORD), st.one_of(st.sampled_from([0, 4, 11, 17, -1, 2.5, 1.5, 3.5]), st.integers(4, 50), st.integers(-20, 0))).map(list),
        rule='WEEKDAY(date, t) for numeric t other than 1, 2, 3 is #NUM!'),
    Law('edate', check_edate, strategy=edate_case(), classes=edate_classes, quick=3000, thorough=200000,
        required=('out-of-range', 'clamped', 'into-february', 'into-century-february', 'negative-offset'),
        nontrivial=lambda c: c['k'] not in (0, 1),
        rule='start dates (biased to days 28-31) x month offsets in -120000..120000 (boundary set + uniform + small): EDATE = reference (floor-divided month arithmetic, day clamped by calendar.monthrange), #NUM! outside 1900-9999'),
]

LEVEL_TEXT = 'Fresh interpreters under time zones with daylight saving; Exhaustive over all (h,m,s) in both tiers and over all 2958464 days in the thorough tier (components, ISO text, serials, WEEKDAY); Hypothesis exploration of date pairs (DAYS/DATEDIF) and EDATE offsets with distribution guards on month-end / leap-day cases.'
LEVEL_NOTE = 'Trusted: datetime/calendar as the Gregorian calendar. Ambiguous whole-month readings are excluded and counted.'
TECHNIQUE = 'exhaustive calendar sweep + Hypothesis differential testing against datetime/calendar'
