"""C15 - text functions satisfy the string algebra they document."""
from hypothesis import strategies as st

from ..env import Env, pev, lit, str_literal, NoLiteral
from ..law import Law, Violation, Skip
from ..values import enc

RULE = 'C15: strings of length 0-60 over ASCII letters/digits/punctuation/space, control characters 1-31, accented and CJK letters; counts 0..len+5 and negatives'
ASSUMPTIONS = ['letters whose case mapping changes the length of the text (sharp s, dotted capital I, ligatures) are not generated',
               'PROPER word rule (capital after a non-letter) is asserted on ASCII-only strings; for others only "case-only change" and idempotence',
               'TEXTJOIN: empty-text items only with ignore_empty FALSE (whether "" counts as blank is not stated); items are text or blank',
               'SUBSTITUTE: the old text is non-empty and has no proper border (cannot overlap itself); occurrences are placed by construction']

ASCII = 'abcdefghijklmnopqrstuvwxyzABCDEFGHIJKLMNOPQRSTUVWXYZ0123456789 !#$%&()*+,-./:;<=>?@[\\]^_`{|}~\'"'
CTRL = ''.join(chr(i) for i in range(1, 32))
ACC = 'éàüñçöåøÉÀÜÑÇÖÅØ\u00df\u03c2\u017f\ufb01\u0130'        # the last five: sharp s, final sigma, long s, the fi ligature, dotted capital I (case mappings that change length or differ from case folding)
CJK = 'ㅍ日本語中文かな\U00020bb7\U0002a6a5'        # the last two are CJK Extension B ideographs (outside the BMP)
COMB = '\u0301\u0308\u1112\u1161\u11ab\uf900\u212b\u2126'        # text that is not in normal form C: combining accents, conjoining Hangul jamo, a compatibility ideograph, the Angstrom and Ohm signs
ODD = '\x7f\x80\x9f\xa0\xad\u200b\u200e\u2028\u3000\ufeff'        # DEL, C1 controls, no-break space, soft hyphen, zero-width and directional marks, line separator, ideographic space, BOM: not among the codes 0-31
ALPHA = ASCII + '   ' + CTRL + ACC + CJK + COMB + ODD

text_s = st.one_of(st.text(st.sampled_from(ALPHA), max_size=60), st.text(st.sampled_from(ASCII), max_size=60),
                   st.text(st.sampled_from('ab \t\n'), max_size=12), st.text(st.sampled_from('Ab c\'d-e3f'), max_size=20))


def spell_s(s, how, name):
    if how == 'lit':
        try:
            return str_literal(s)
        except NoLiteral:
            return name
    return name


def get(f, env):
    r = env.parse(f)
    return r


def want_text(f, env, want, what=None):
    r = env.parse(f)
    g = r['result']
    if r['error'] is not None or not isinstance(g, str) or g != want:
        raise Violation('%s -> %r, expected %r%s' % (what or f, r['error'] or g, want, ''), r['error'] or enc(g), want)


def want_value(f, env, want, what=None):
    r = env.parse(f)
    g = r['result']
    if r['error'] is not None or type(g) != type(want) or g != want:
        raise Violation('%s -> %r, expected %r' % (what or f, r['error'] or g, want), r['error'] or enc(g), enc(want))


def want_error(f, env, code, what=None):
    r = env.parse(f)
    if r['error'] != code:
        raise Violation('%s -> %r, expected %s' % (what or f, r['error'] or r['result'], code), r['error'] or enc(r['result']), code)


# ---------------------------------------------------------------- LEFT / RIGHT / MID / LEN

@st.composite
def slice_case(draw):
    s = draw(text_s)
    n = draw(st.one_of(st.integers(0, len(s) + 5), st.sampled_from([0, len(s), len(s) + 1]), st.integers(-5, -1)))
    a = draw(st.integers(1, len(s) + 3))
    return {'s': s, 'n': n, 'a': a, 'b': draw(text_s), 'how': draw(st.sampled_from(['var', 'lit']))}


def check_slices(case):
    s, n, a, b = case['s'], case['n'], case['a'], case['b']
    env = Env(vars={'v_s': s, 'v_b': b, 'v_n': n, 'v_a': a})
    S = spell_s(s, case['how'], 'v_s')
    N = lit(n) if case['how'] == 'lit' else 'v_n'
    A = lit(a) if case['how'] == 'lit' else 'v_a'
    d = 's=%r n=%r a=%r: ' % (s, n, a)
    if n < 0:
        want_error('LEFT(%s,%s)' % (S, N), env, '#VALUE!', d + 'LEFT(s,n)')
        want_error('RIGHT(%s,%s)' % (S, N), env, '#VALUE!', d + 'RIGHT(s,n)')
        want_error('MID(%s,%s,%s)' % (S, A, N), env, '#VALUE!', d + 'MID(s,a,n)')
        return
    want_text('LEFT(%s,%s)' % (S, N), env, s[:n], d + 'LEFT(s,n)')
    want_text('RIGHT(%s,%s)' % (S, N), env, s[len(s) - n:] if n <= len(s) else s, d + 'RIGHT(s,n)')
    want_text('MID(%s,%s,%s)' % (S, A, N), env, s[a - 1:a - 1 + n], d + 'MID(s,a,n)')
    want_value('LEN(%s)' % S, env, len(s), d + 'LEN(s)')
    want_value('MID(%s,1,%s)=LEFT(%s,%s)' % (S, N, S, N), env, True, d + 'MID(s,1,n)=LEFT(s,n)')
    want_value('LEN(v_s&v_b)=LEN(v_s)+LEN(v_b)', env, True, d + 'b=%r: LEN(s&b)=LEN(s)+LEN(b)' % b)
    want_text('v_s&v_b', env, s + b, d + 's&b')
    if n <= len(s):
        want_text('LEFT(%s,%s)&RIGHT(%s,LEN(%s)-%s)' % (S, N, S, S, N), env, s, d + 'LEFT(s,n)&RIGHT(s,LEN(s)-n)')
        # the same laws stated inside the formula language
        want_value('LEFT(v_s,v_n)&RIGHT(v_s,LEN(v_s)-v_n)=v_s', env, True, d + 'LEFT(s,n)&RIGHT(s,LEN(s)-n)=s')
        want_value('v_s=LEFT(v_s,v_n)&RIGHT(v_s,LEN(v_s)-v_n)', env, True, d + 's=LEFT(s,n)&RIGHT(s,LEN(s)-n)')
    want_value('v_s&v_b=CONCATENATE(v_s,v_b)', env, True, d + 'b=%r: s&b=CONCATENATE(s,b)' % b)


def slice_key(c):
    if c['n'] == 0:
        return 'count=0'
    if c['n'] < 0:
        return 'negative'
    return 'len=0' if not c['s'] else ''


def slice_nontrivial(c):
    L = len(c['s'])
    return (L >= 2 and 0 < c['n'] < L) or c['n'] in (0, L, L + 1) or any(ord(ch) > 126 or ord(ch) < 32 for ch in c['s'])


# ---------------------------------------------------------------- UPPER / LOWER / PROPER / TRIM / CLEAN

def ref_trim(s):
    out = s.strip(' ')
    while '  ' in out:
        out = out.replace('  ', ' ')
    return out


def only_case_changed(s, g, fn):
    """g is s with every character either kept or replaced by its Unicode case mapping of the right direction (which may be longer than one character:
    sharp s -> SS, dotted capital I -> i + combining dot).  Case *folding* (sharp s -> ss under LOWER, final sigma -> sigma) is not a case mapping."""
    def images(ch):
        if not ch.isalpha():
            return {ch}
        if fn == 'UPPER':
            return {ch, ch.upper()}
        if fn == 'LOWER':
            return {ch, ch.lower()}
        return {ch, ch.upper(), ch.lower(), ch.title()}
    reach = {0}
    for ch in s:
        nxt = set()
        for pos in reach:
            for im in images(ch):
                if g.startswith(im, pos):
                    nxt.add(pos + len(im))
        reach = nxt
        if not reach:
            return False
    return len(g) in reach


def check_case_trim_clean(case):
    s = case['s']
    env = Env(vars={'v_s': s})
    S = spell_s(s, case['how'], 'v_s')
    res = {}
    for fn in ('UPPER', 'LOWER', 'PROPER', 'TRIM', 'CLEAN'):
        r = env.parse('%s(%s)' % (fn, S))
        g = r['result']
        if r['error'] is not None or not isinstance(g, str):
            raise Violation('%s(%r) -> %r' % (fn, s, r['error'] or g), r['error'] or enc(g), 'text')
        res[fn] = g
        r2 = Env(vars={'v_s': g}).parse('%s(v_s)' % fn)
        if r2['error'] is not None or r2['result'] != g:
            raise Violation('%s is not idempotent on %r: %r then %r' % (fn, s, g, r2['error'] or r2['result']), enc(r2['result']), g)
    for fn in ('UPPER', 'LOWER', 'PROPER'):
        g = res[fn]
        if not only_case_changed(s, g, fn):
            raise Violation('%s(%r) = %r changes more than letter case' % (fn, s, g), g, None)
    if any(ch.islower() for ch in res['UPPER']):
        raise Violation('UPPER(%r) = %r still has lower-case letters' % (s, res['UPPER']), res['UPPER'], s.upper())
    if any(ch.isupper() for ch in res['LOWER']):
        raise Violation('LOWER(%r) = %r still has upper-case letters' % (s, res['LOWER']), res['LOWER'], s.lower())
    if all(ord(ch) < 128 for ch in s):
        g = res['PROPER']
        for i, ch in enumerate(g):
            if ch.isalpha():
                first = (i == 0) or not g[i - 1].isalpha()
                if ch.isupper() != first:
                    raise Violation('PROPER(%r) = %r: letter %d has the wrong case' % (s, g, i), g, None)
    if res['TRIM'] != ref_trim(s):
        raise Violation('TRIM(%r) = %r, expected %r (only surplus spaces go)' % (s, res['TRIM'], ref_trim(s)), res['TRIM'], ref_trim(s))
    wc = ''.join(ch for ch in s if ord(ch) > 31)
    if res['CLEAN'] != wc:
        raise Violation('CLEAN(%r) = %r, expected %r' % (s, res['CLEAN'], wc), res['CLEAN'], wc)


def ctc_key(c):
    s = c['s']
    i = s.find('\u0130')
    if i >= 0 and any(ch.isalpha() for ch in s[i + 1:]):
        return 'letter-after-dotted-capital-I'      # known finding: PROPER is not idempotent there
    if s != s.strip(' ') and s.strip(' ') != s.strip():
        return 'edge-control-whitespace'
    if s.strip() != s.strip(' '):
        return 'edge-control-whitespace'
    return ''


def ctc_classes(c):
    s = c['s']
    out = []
    if any(ord(ch) < 32 for ch in s):
        out.append('control')
    if any(ord(ch) > 127 for ch in s):
        out.append('non-ascii')
    if '  ' in s:
        out.append('double-space')
    if s[:1] in ('\t', '\n') or s[-1:] in ('\t', '\n'):
        out.append('edge-tab-newline')
    return out


# ---------------------------------------------------------------- CODE / CHAR

def enum_codes(tier, shard, nshards):
    pts = list(range(1, 256))
    step = 1 if tier == 'thorough' else 257
    pts += list(range(256, 0x110000, step))
    for i, n in enumerate(pts):
        if i % nshards == shard:
            yield n


def check_code(n):
    r = pev('CODE(CHAR(%d))' % n)
    if r['error'] is not None or isinstance(r['result'], bool) or r['result'] != n:
        raise Violation('CODE(CHAR(%d)) -> %r' % (n, r['error'] or r['result']), r['error'] or enc(r['result']), n)


# ---------------------------------------------------------------- CONCATENATE / TEXTJOIN

item_s = st.one_of(st.text(st.sampled_from(ALPHA), min_size=1, max_size=8), st.none(), st.integers(-1000, 10 ** 6))


def nest(draw, items):
    """regroup a flat list into arguments, some of them (nested) arrays"""
    args = []
    i = 0
    while i < len(items):
        k = draw(st.integers(1, 3))
        chunk = items[i:i + k]
        i += k
        shape = draw(st.integers(0, 2))
        if shape == 0 and len(chunk) == 1:
            args.append(chunk[0])
        elif shape == 1 and len(chunk) >= 2:
            args.append([chunk[0], chunk[1:]])
        else:
            args.append(list(chunk))
    return args


@st.composite
def join_case(draw):
    items = draw(st.lists(item_s, min_size=1, max_size=8))
    titems = [x if not isinstance(x, int) else str(x) for x in items]
    ignore = draw(st.booleans())
    if not ignore and draw(st.booleans()):
        titems = titems + ['']
    delim = draw(st.text(st.sampled_from(',; -|ab\t'), max_size=3))
    return {'items': items, 'args': nest(draw, items), 'titems': titems, 'targs': nest(draw, titems), 'delim': delim, 'ignore': ignore}


def flat(x):
    out = []
    for e in x:
        if isinstance(e, list):
            out.extend(flat(e))
        else:
            out.append(e)
    return out


def check_join(case):
    args = case['args']
    names = ['v_%s' % 'abcdefghij'[i] for i in range(len(args))]
    env = Env(vars=dict(zip(names, args)))
    items = flat(args)
    want = ''.join('' if x is None else (x if isinstance(x, str) else str(x)) for x in items)
    want_text('CONCATENATE(%s)' % ','.join(names), env, want, 'CONCATENATE of %r' % (args,))
    if any(isinstance(a, list) and any(isinstance(e, list) for e in a) for a in args):
        # the rows of a host table as tuples (what a database cursor hands out): a sequence below the top level is flattened whichever of the two it is
        targs_ = [[tuple(e) if isinstance(e, list) else e for e in a] if isinstance(a, list) else a for a in args]
        want_text('CONCATENATE(%s)' % ','.join(names), Env(vars=dict(zip(names, targs_))), want, 'CONCATENATE of %r' % (targs_,))

    def written(names_, args_):
        # the same list with its blank items left out of the text (an omitted slot is a blank), in one of the three separator styles; the grammar takes
        # a run of several omitted slots at the start of a list only
        slots = ['' if a is None else n for n, a in zip(names_, args_)]
        lead = 0
        while lead < len(slots) and slots[lead] == '':
            lead += 1
        rest = slots[lead:]
        if any(rest[i] == '' and (i + 1 == len(rest) or rest[i + 1] == '') for i in range(len(rest))) or lead == len(slots):
            return None
        return [',', ';', '\\'][(len(slots) + lead) % 3].join(slots)
    # an argument mentioned twice is two arguments (the same host list object reaching one call more than once)
    n0 = names[0]
    one = ''.join('' if x is None else (x if isinstance(x, str) else str(x)) for x in (flat(args[0]) if isinstance(args[0], list) else [args[0]]))
    want_text('CONCATENATE(%s,"-",%s)' % (n0, n0), env, one + '-' + one, 'CONCATENATE(a,"-",a) with a = %r' % (args[0],))
    w = written(names, args)
    if w is not None and w != ','.join(names):
        want_text('CONCATENATE(%s)' % w, env, want, 'CONCATENATE of %r with the blanks written as omitted slots' % (args,))
    targs = case['targs']
    tnames = ['v_%s' % 'klmnopqrst'[i] for i in range(len(targs))]
    env = Env(vars=dict(zip(tnames, targs) ), )
    env.P.set_variable('v_d', case['delim'])
    titems = flat(targs)
    if case['ignore']:
        want = case['delim'].join(x for x in titems if x is not None)
    else:
        want = case['delim'].join('' if x is None else x for x in titems)
    want_text('TEXTJOIN(v_d,%s,%s)' % ('TRUE' if case['ignore'] else 'FALSE', ','.join(tnames)), env, want,
              'TEXTJOIN(%r,%s) of %r' % (case['delim'], case['ignore'], targs))
    w = written(['X'] + tnames, ['X'] + list(targs))
    if w is not None and '' in w.replace(',', ' ').replace(';', ' ').replace('\\', ' ').split(' '):
        sep = [c for c in (',', ';', '\\') if c in w][0]
        want_text('TEXTJOIN(v_d%s%s%s%s)' % (sep, 'TRUE' if case['ignore'] else 'FALSE', sep, w[1 + len(sep):]), env, want,
                  'TEXTJOIN(%r,%s) of %r with the blanks written as omitted slots' % (case['delim'], case['ignore'], targs))


def join_key(c):
    return 'blank-item' if any(x is None for x in c['items']) else ''


# ---------------------------------------------------------------- SUBSTITUTE

@st.composite
def subst_case(draw):
    old = draw(st.text(st.sampled_from('abcAB.*'), min_size=1, max_size=4))
    if any(old[:k] == old[-k:] for k in range(1, len(old))):
        old = old + 'q'
    count = draw(st.integers(0, 5))
    fillers = [draw(st.text(st.sampled_from('xyzXYZ 12\t_é日'), max_size=6)) for _ in range(count + 1)]
    new = draw(st.one_of(st.just(''), st.text(st.sampled_from(ALPHA), max_size=5), st.just(old + old), st.just('x' + old), st.sampled_from(['', 'N', 'new']), st.none()))       # None: a blank (variable, NULL or omitted slot) stands for empty text
    k = draw(st.one_of(st.none(), st.integers(1, count + 2)))
    return {'old': old, 'fillers': fillers, 'new': new, 'k': k, 'how': draw(st.sampled_from(['var', 'lit']))}


def check_subst(case):
    old, fillers, new, k = case['old'], case['fillers'], case['new'], case['k']
    text = old.join(fillers)
    count = len(fillers) - 1
    env = Env(vars={'v_t': text, 'v_o': old, 'v_n': new, 'v_k': k})
    T, O = spell_s(text, case['how'], 'v_t'), spell_s(old, case['how'], 'v_o')
    if new is None:
        N = ['v_n', 'NULL', ''][(len(text) + count) % 3]
        new = ''
    else:
        N = spell_s(new, case['how'], 'v_n')
    if k is None:
        want = new.join(fillers)
        f = 'SUBSTITUTE(%s,%s,%s)' % (T, O, N)
    else:
        if k > count:
            want = text
        else:
            want = old.join(fillers[:k]) + new + old.join(fillers[k:])
        f = 'SUBSTITUTE(%s,%s,%s,%s)' % (T, O, N, str(k) if case['how'] == 'lit' else 'v_k')
    want_text(f, env, want, 'SUBSTITUTE(%r,%r,%r%s)' % (text, old, new, '' if k is None else ',%d' % k))


def subst_key(c):
    return 'new-empty' if not c['new'] else ''


cs = st.fixed_dictionaries({'s': text_s, 'how': st.sampled_from(['var', 'var', 'lit'])})

LAWS = [
    Law('slices', check_slices, strategy=slice_case(), key=slice_key, nontrivial=slice_nontrivial, quick=3000, thorough=200000,
        classes=lambda c: (slice_key(c) or 'inner', 'how:' + c['how']), required=('count=0', 'negative', 'len=0', 'inner', 'how:lit'),
        rule='(s, n, start): LEFT/RIGHT/MID equal Python slices, n = 0 gives empty text, negative n gives #VALUE!, LEFT&RIGHT recomposes s, MID(s,1,n)=LEFT(s,n), LEN(a&b)=LEN(a)+LEN(b); strings as variables (any content) or literals; '
             'non-trivial = count strictly inside (0,len) on len >= 2, or count in {0,len,len+1}, or a non-ASCII/control character'),
    Law('case_trim_clean', check_case_trim_clean, strategy=cs, key=ctc_key, classes=ctc_classes, quick=3000, thorough=200000,
        required=('control', 'non-ascii', 'double-space', 'edge-tab-newline'),
        nontrivial=lambda c: len(c['s']) >= 2,
        rule='UPPER/LOWER/PROPER change only letter case (position by position), UPPER leaves no lower-case letter, PROPER capitalises exactly the letters after a non-letter (ASCII), '
             'TRIM = strip U+0020 at the ends and collapse inner runs of spaces, CLEAN = drop code points 0-31; all five idempotent'),
    Law('code_char', check_code, enumerate=enum_codes, exhaustive='thorough', shards=(2, 16),
        rule='CODE(CHAR(n)) = n for n = 1..255 exhaustively and up to 0x10FFFF (every code point in thorough, stride 257 in quick)'),
    Law('concat_join', check_join, strategy=join_case(), key=join_key, quick=2000, thorough=100000,
        classes=lambda c: ((join_key(c) or 'no-blank'), 'ignore:%s' % c['ignore']), required=('blank-item', 'ignore:True', 'ignore:False'),
        nontrivial=lambda c: len(c['items']) >= 2,
        rule='1-8 items (text, integers, blanks) regrouped into scalar / flat-array / nested-array arguments (the inner rows as lists and as tuples): CONCATENATE = join of the flattened items; TEXTJOIN(d, flag, text-or-blank items) joins with d, dropping blanks iff flag'),
    Law('substitute', check_subst, strategy=subst_case(), key=subst_key, quick=3000, thorough=200000,
        classes=lambda c: ((subst_key(c) or 'new-nonempty'), 'k' if c['k'] is not None else 'all', 'occ%d' % min(2, len(c['fillers']) - 1)),
        required=('new-empty', 'k', 'all', 'occ0', 'occ2'),
        nontrivial=lambda c: len(c['fillers']) >= 3 or c['new'] == '',
        rule='text built as fillers joined by a border-free old text (0-5 occurrences, known by construction), new text possibly empty or containing old, instance k in 1..count+2 or omitted: every / only the k-th occurrence replaced, unchanged when there is no such occurrence'),
]

LEVEL_TEXT = 'Hypothesis exploration of the text algebra against Python string operations written independently, over an alphabet with control, accented and CJK characters; CODE/CHAR swept over every code point in the thorough tier.'
LEVEL_NOTE = 'Trusted: Python str slicing/join as the reference. Case-length-changing letters and overlapping SUBSTITUTE patterns are outside the statement and not generated.'
TECHNIQUE = 'Hypothesis property testing: reference model (Python strings), algebraic laws, idempotence, constructed occurrences'
