"""C16 - real-valued math and PV return the mathematically defined value or an error."""
import math
from fractions import Fraction

from hypothesis import strategies as st

from ..env import Env, pev, lit
from ..law import Law, Violation, Skip
from ..values import enc

try:
    import mpmath
    mpmath.mp.dps = 50
    HAVE_MP = True
except Exception:           # pragma: no cover
    mpmath = None
    HAVE_MP = False

RULE = 'C16: reals from boundary grids and log-uniform magnitudes 1e-9..1e9 of both signs; numeric text and logicals; PV tuples'
ASSUMPTIONS = ['reference values from mpmath at 50 digits on the exact value of the double argument' if HAVE_MP else 'mpmath unavailable: reference values from the math module (weaker)',
               'tolerance |a-b| <= 1e-9*max(|a|,|b|) + 1e-12; ACOSH within 1e-6 of 1 (infinite condition number) and EXP beyond x = 709.78 and SINH/COSH beyond |x| = 710.4 (the value leaves the double range) are excluded from the value comparison',
               'ACOT of a negative number: both the (-pi/2,0) and the (pi/2,pi) convention are accepted',
               'an error of any code is accepted outside the domain; nan/inf count as "a number returned"']

PI = math.pi


def mpf(x):
    return mpmath.mpf(x)


def _mp(name):
    def f(x):
        return getattr(mpmath, name)(mpf(x))
    return f


# name -> (domain predicate, reference function, comparable predicate)
def _tbl():
    if HAVE_MP:
        R = {
            'ABS': _mp('fabs'), 'SQRT': _mp('sqrt'), 'EXP': _mp('exp'), 'LN': _mp('log'), 'LOG10': _mp('log10'),
            'SIN': _mp('sin'), 'COS': _mp('cos'), 'TAN': _mp('tan'), 'COT': _mp('cot'),
            'SINH': _mp('sinh'), 'COSH': _mp('cosh'), 'TANH': _mp('tanh'),
            'ASIN': _mp('asin'), 'ACOS': _mp('acos'), 'ATAN': _mp('atan'), 'ACOT': lambda x: mpmath.atan(1 / mpf(x)) if x != 0 else mpmath.pi / 2,
            'ASINH': _mp('asinh'), 'ACOSH': _mp('acosh'), 'ATANH': _mp('atanh'), 'ACOTH': _mp('acoth'),
            'RADIANS': lambda x: mpf(x) * mpmath.pi / 180, 'DEGREES': lambda x: mpf(x) * 180 / mpmath.pi,
        }
    else:
        R = {
            'ABS': abs, 'SQRT': math.sqrt, 'EXP': math.exp, 'LN': math.log, 'LOG10': math.log10,
            'SIN': math.sin, 'COS': math.cos, 'TAN': math.tan, 'COT': lambda x: 1.0 / math.tan(x),
            'SINH': math.sinh, 'COSH': math.cosh, 'TANH': math.tanh,
            'ASIN': math.asin, 'ACOS': math.acos, 'ATAN': math.atan, 'ACOT': lambda x: math.atan2(1.0, x) if x >= 0 else math.atan2(1.0, x) - PI,
            'ASINH': math.asinh, 'ACOSH': math.acosh, 'ATANH': math.atanh, 'ACOTH': lambda x: math.atanh(1.0 / x),
            'RADIANS': math.radians, 'DEGREES': math.degrees,
        }
    anyx = lambda x: True
    D = {
        'ABS': anyx, 'SQRT': lambda x: x >= 0, 'EXP': anyx, 'LN': lambda x: x > 0, 'LOG10': lambda x: x > 0,
        'SIN': anyx, 'COS': anyx, 'TAN': anyx, 'COT': lambda x: x != 0,
        'SINH': anyx, 'COSH': anyx, 'TANH': anyx,
        'ASIN': lambda x: -1 <= x <= 1, 'ACOS': lambda x: -1 <= x <= 1, 'ATAN': anyx, 'ACOT': anyx,
        'ASINH': anyx, 'ACOSH': lambda x: x >= 1, 'ATANH': lambda x: -1 < x < 1, 'ACOTH': lambda x: abs(x) > 1,
        'RADIANS': anyx, 'DEGREES': anyx,
    }
    return R, D


REF, DOM = _tbl()
UNARY = sorted(REF.keys())


def comparable(name, x):
    if name == 'EXP' and x > 709.78:
        return False        # e^x exists as a double up to ln(max double) = 709.7827...; beyond it the comparison is not made
    if name in ('SINH', 'COSH') and abs(x) > 710.4:
        return False
    if name == 'ACOSH' and abs(x - 1) < 1e-6 and x != 1:
        return False
    if name in ('TAN', 'COT'):
        # the true value of tan at a double can be astronomically large next to a pole: keep |value| < 1e12
        v = abs(REF[name](x))
        if v > 1e12:
            return False
    return True


def close(a, b, rel=1e-9, ab=1e-12):
    return abs(a - b) <= rel * max(abs(a), abs(b)) + ab


def ulp_grid():
    pts = [-1.0, 0.0, 1.0, PI / 2, -PI / 2, PI, -PI, 2 * PI, 0.5, -0.5, 2.0, -2.0, 3 * PI / 2, -3 * PI / 2, 5 * PI / 2, 7 * PI / 2] + [float(i) for i in range(-10, 11)]
    out = []
    for p in pts:
        for d in (0.0, 1e-9, -1e-9, 1e-3, -1e-3):
            out.append(p + d)
        out.append(math.nextafter(p, math.inf))
        out.append(math.nextafter(p, -math.inf))
    return out


GRID = ulp_grid() + [700.5, 705.0, 709.0, 709.5, 709.78, 709.2, 710.0, 710.4, -709.5, -710.3, -745.0, 88.7, 230.25]      # the last stretch before EXP / SINH / COSH leave the double range


def reals():
    logu = st.tuples(st.floats(-9, 9), st.booleans()).map(lambda t: (10.0 ** t[0]) * (-1 if t[1] else 1))
    floor9 = lambda v: v if (abs(v) >= 1e-9 or v == 0) else math.copysign(1e-9, v)   # magnitudes below 1e-9 are outside the explored range
    small = st.floats(-12, 12, allow_nan=False).map(floor9)
    unit = st.floats(-1.5, 1.5, allow_nan=False).map(floor9)
    ints = st.integers(-1000, 1000).map(float)
    return st.one_of(st.sampled_from(GRID), logu, small, unit, ints)


def spell(x, how):
    """how: var | lit | text"""
    if how == 'lit':
        return lit(x if not (isinstance(x, float) and x.is_integer() and abs(x) < 1e15) else int(x))
    return 'v_x'


def num_outcome(f, env):
    r = env.parse(f)
    g = r['result']
    return r, g


def check_unary(case):
    name, x, how = case['f'], case['x'], case['how']
    if isinstance(x, int) and abs(x) >= 2 ** 1023 and name not in ('LN', 'LOG10'):
        # an integer beyond the double range is an argument only where no conversion to a double is needed first (the logarithms take integers
        # of any size); elsewhere the argument itself is outside what a real-valued function of doubles can be handed
        raise Skip('argument-beyond-double-range')
    if how == 'text':
        env = Env(vars={'v_x': repr(x)})
    else:
        env = Env(vars={'v_x': x})
    f = '%s(%s)' % (name, spell(x, how))
    r = env.parse(f)
    g = r['result']
    if not DOM[name](x):
        if r['error'] is None:
            raise Violation('%s with x=%r is outside the real domain but returned %r' % (f, x, g), enc(g), 'error')
        return
    if not comparable(name, x):
        if name in ('TAN', 'COT') and abs(REF[name](x)) < 1e300:
            # next to a pole the value is huge and ill-conditioned, so it is not compared - but it exists (no double is a pole of the tangent): a number, not an error
            if r['error'] is not None or isinstance(g, bool) or not isinstance(g, (int, float)) or not math.isfinite(g) or abs(g) < 1e9:
                raise Violation('%s with x=%r -> %r; the value exists (about %.3g): expected a number of that size' % (f, x, r['error'] or g, float(REF[name](x))), r['error'] or enc(g), float(REF[name](x)))
            return
        raise Skip('ill-conditioned-or-overflow')
    want = REF[name](x)
    if r['error'] is not None or isinstance(g, bool) or not isinstance(g, (int, float)) or not math.isfinite(g):
        raise Violation('%s with x=%r -> %r, the value exists: %s' % (f, x, r, float(want)), r['error'] or enc(g), float(want))
    if HAVE_MP:
        ok = abs(mpf(g) - want) <= mpf('1e-9') * max(abs(mpf(g)), abs(want)) + mpf('1e-12')
        if not ok and name == 'ACOT' and x < 0:
            ok = abs(mpf(g) - (want + mpmath.pi)) <= mpf('1e-9') * 4
    else:
        ok = close(g, want) or (name == 'ACOT' and x < 0 and close(g, want + PI))
    if not ok:
        raise Violation('%s with x=%r = %r, mathematical value %s' % (f, x, g, float(want)), g, float(want))


def unary_classes(c):
    out = ['how:' + c['how']]
    out.append('in-domain' if DOM[c['f']](c['x']) else 'outside-domain')
    return out


# ---------------------------------------------------------------- coercion

SPELLINGS = [('.5', 0.5), ('-.25', -0.25), ('+.5', 0.5), ('+3', 3), ('-4', -4), ('007', 7), ('2.50', 2.5), ('0.125', 0.125), ('12', 12), ('+0.75', 0.75), ('1.5', 1.5), ('-0.5', -0.5), ('.0625', 0.0625), ('10', 10), ('1', 1), ('0', 0), ('-1', -1),
             ('0.2500000000000000000000000000000000000', 0.25), ('0.1000000000000000055511151231257827021181583404541015625', 0.1), ('2.' + '0' * 60, 2.0), ('0' * 40 + '3', 3), ('-0.5000000000000000000000000000000000000000', -0.5)]      # the length of a spelling is no part of the number


def check_coercion(case):
    name, which = case['f'], case['w']
    if which == 'text':
        x = case['x']
        spelling = repr(x)
        if case.get('sp') is not None:
            # other ways of spelling a number as text: optional sign, digits, optional fraction
            spelling, x = SPELLINGS[case['sp'] % len(SPELLINGS)]
        if not DOM[name](x) or not comparable(name, x):
            raise Skip('outside-domain')
        a = Env(vars={'v_x': spelling}).parse('%s(v_x)' % name)
        b = Env(vars={'v_x': x}).parse('%s(v_x)' % name)
        if case.get('sp') is not None and case.get('lit'):
            a = Env().parse('%s("%s")' % (name, spelling))
        what = 'text %r vs number %r' % (spelling, x)
    else:
        val = (which == 'true')
        x = 1.0 if val else 0.0
        if not DOM[name](x):
            a = pev('%s(%s)' % (name, 'TRUE' if val else 'FALSE'))
            if a['error'] is None:
                raise Violation('%s(%s) is outside the domain but returned %r' % (name, which.upper(), a['result']), enc(a['result']), 'error')
            return
        a = pev('%s(%s)' % (name, 'TRUE' if val else 'FALSE'))
        b = pev('%s(%d)' % (name, int(x)))
        what = '%s vs %d' % (which.upper(), int(x))
    if a['error'] != b['error'] or (a['error'] is None and not (isinstance(a['result'], (int, float)) and close(a['result'], b['result']))):
        raise Violation('%s: %s give different outcomes: %r vs %r' % (name, what, a, b), enc(a['result']) if a['error'] is None else a['error'], enc(b['result']) if b['error'] is None else b['error'])
    # non-numeric text is an error
    t = Env(vars={'v_t': case['junk']}).parse('%s(v_t)' % name)
    if t['error'] is None:
        raise Violation('%s(%r) returned %r for non-numeric text' % (name, case['junk'], t['result']), enc(t['result']), 'error')


# ---------------------------------------------------------------- two-argument functions

def check_atan2(case):
    x, y = case['x'], case['y']

    def entry(v, how):
        # the coordinate as a number, as text spelling it, or (0 and 1 only) as a logical
        if how == 'text':
            return ('%d' % v) if float(v).is_integer() and abs(v) < 1e15 and (v != 0 or math.copysign(1, v) > 0) else repr(float(v))
        if how == 'bool' and v in (0, 1):
            return bool(v)
        return v
    vx, vy = entry(x, case.get('sx', 'num')), entry(y, case.get('sy', 'num'))
    env = Env(vars={'v_x': vx, 'v_y': vy})
    f = 'ATAN2(v_x,v_y)'
    r = env.parse(f)
    if x == 0 and y == 0:
        if r['error'] != '#DIV/0!':
            raise Violation('ATAN2(%r,%r) -> %r, expected #DIV/0! (the origin)' % (vx, vy, r), r['error'] or enc(r['result']), '#DIV/0!')
        return
    g = r['result']
    if r['error'] is not None or isinstance(g, bool) or not isinstance(g, (int, float)):
        raise Violation('ATAN2(%r,%r) -> %r: the angle of the point exists' % (vx, vy, r), r['error'] or enc(g), math.atan2(y, x))
    rad = math.hypot(x, y)
    if not (-PI - 1e-12 < g <= PI + 1e-12) or not close(rad * math.cos(g), x, 1e-9, 1e-9 * rad) or not close(rad * math.sin(g), y, 1e-9, 1e-9 * rad):
        raise Violation('ATAN2(%r,%r) = %r is not the angle of the point (x,y)' % (vx, vy, g), g, math.atan2(y, x))


def check_log_power(case):
    kind = case['k']
    a, b = case['a'], case['b']
    env = Env(vars={'v_a': a, 'v_b': b})
    if kind == 'LOG':
        f = 'LOG(v_a,v_b)'
        r = env.parse(f)
        indom = a > 0 and b > 0 and b != 1
        if not indom:
            if r['error'] is None:
                raise Violation('LOG(%r,%r) is undefined but returned %r' % (a, b, r['result']), enc(r['result']), 'error')
            return
        if abs(math.log(b)) < 1e-6:
            raise Skip('ill-conditioned-or-overflow')
        want = (mpmath.log(mpf(a)) / mpmath.log(mpf(b))) if HAVE_MP else math.log(a) / math.log(b)
        g = r['result']
        if r['error'] is not None or isinstance(g, bool) or not isinstance(g, (int, float)) or not close(g, float(want)):
            raise Violation('LOG(%r,%r) -> %r, value %r' % (a, b, r, float(want)), r['error'] or enc(g), float(want))
        r2 = env.parse('LN(v_a)/LN(v_b)')
        if r2['error'] is not None or not close(r2['result'], g, 1e-9, 1e-12):
            raise Violation('LOG(a,b) = %r but LN(a)/LN(b) = %r for a=%r b=%r' % (g, r2['result'], a, b), g, enc(r2['result']))
        if case['ten']:
            r3 = Env(vars={'v_a': a}).parse('{LOG10(v_a),LOG(v_a,10),LOG(v_a)}')
            l = r3['result']
            if r3['error'] is not None or not (close(l[0], l[1]) and close(l[0], l[2]) and close(l[0], float(mpmath.log10(mpf(a)) if HAVE_MP else math.log10(a)))):
                raise Violation('LOG10(a), LOG(a,10), LOG(a) = %r for a=%r' % (l, a), enc(l), None)
    else:
        f = 'POWER(v_a,v_b)'
        r = env.parse(f)
        g = r['result']
        if a == 0 and b < 0 or (a < 0 and b != int(b)):
            if r['error'] is None:
                raise Violation('POWER(%r,%r) has no real value but returned %r' % (a, b, g), enc(g), 'error')
            return
        if a == 0 and b == 0:
            raise Skip('0^0')
        if a != 0 and abs(b * math.log(abs(a))) > 600:
            raise Skip('ill-conditioned-or-overflow')
        if HAVE_MP:
            want = float(mpmath.re(mpmath.power(mpf(a), mpf(b)))) if a != 0 else 0.0
        else:
            want = math.pow(a, b)
        if r['error'] is not None or isinstance(g, bool) or not isinstance(g, (int, float)) or not close(g, want, 1e-9, 1e-300):
            raise Violation('POWER(%r,%r) -> %r, value %r' % (a, b, r, want), r['error'] or enc(g), want)


# ---------------------------------------------------------------- identities through single formulas

IDENTS = [
    # (name, formula, expected (callable of x), domain lo, hi, tolerance)
    ('pythagoras', 'SIN(v_x)*SIN(v_x)+COS(v_x)*COS(v_x)', lambda x: 1.0, -1e9, 1e9, 1e-9),
    ('tan=sin/cos', 'TAN(v_x)-SIN(v_x)/COS(v_x)', lambda x: 0.0, -1.5, 1.5, 1e-9),
    ('cot=1/tan', 'COT(v_x)*TAN(v_x)', lambda x: 1.0, 0.01, 1.5, 1e-9),
    ('exp(ln)', 'EXP(LN(v_x))/v_x', lambda x: 1.0, 1e-9, 1e9, 1e-9),
    ('ln(exp)', 'LN(EXP(v_x))', lambda x: x, -600, 600, 1e-9),
    ('sin(asin)', 'SIN(ASIN(v_x))', lambda x: x, -1, 1, 1e-9),
    ('asin(sin)', 'ASIN(SIN(v_x))', lambda x: x, -1.5, 1.5, 1e-7),
    ('cos(acos)', 'COS(ACOS(v_x))', lambda x: x, -1, 1, 1e-9),
    ('acos(cos)', 'ACOS(COS(v_x))', lambda x: x, 0.05, 3.09, 1e-7),
    ('tan(atan)', 'TAN(ATAN(v_x))/v_x', lambda x: 1.0, 1e-6, 1e6, 1e-9),
    ('atan(tan)', 'ATAN(TAN(v_x))', lambda x: x, -1.5, 1.5, 1e-9),
    ('sinh(asinh)', 'SINH(ASINH(v_x))/v_x', lambda x: 1.0, 1e-6, 1e9, 1e-9),
    ('asinh(sinh)', 'ASINH(SINH(v_x))', lambda x: x, -300, 300, 1e-9),
    ('cosh(acosh)', 'COSH(ACOSH(v_x))/v_x', lambda x: 1.0, 1, 1e9, 1e-9),
    ('acosh(cosh)', 'ACOSH(COSH(v_x))', lambda x: x, 0.05, 300, 1e-7),
    ('tanh(atanh)', 'TANH(ATANH(v_x))', lambda x: x, -0.999999, 0.999999, 1e-9),
    ('atanh(tanh)', 'ATANH(TANH(v_x))', lambda x: x, -8, 8, 1e-6),
    ('cot(acot)', 'COT(ACOT(v_x))/v_x', lambda x: 1.0, 1e-6, 1e6, 1e-9),
    ('cot(acot)neg', 'COT(ACOT(v_x))/v_x', lambda x: 1.0, -1e6, -1e-6, 1e-9),
    ('acot(cot)', 'ACOT(COT(v_x))', lambda x: x, 0.01, 1.56, 1e-9),
    ('acoth', 'TANH(ACOTH(v_x))*v_x', lambda x: 1.0, 1.000001, 1e6, 1e-9),
    ('acoth-neg', 'TANH(ACOTH(v_x))*v_x', lambda x: 1.0, -1e6, -1.000001, 1e-9),
    ('deg(rad)', 'DEGREES(RADIANS(v_x))', lambda x: x, -1e9, 1e9, 1e-12),
    ('rad180', 'RADIANS(180*v_x)/PI()', lambda x: x, -1e6, 1e6, 1e-12),
    ('abs', 'ABS(v_x)*ABS(v_x)-v_x*v_x', lambda x: 0.0, -1e9, 1e9, 0.0),
    ('sqrt^2', 'SQRT(v_x)*SQRT(v_x)/v_x', lambda x: 1.0, 1e-9, 1e9, 1e-12),
    ('power3', 'POWER(v_x,3)-v_x*v_x*v_x', lambda x: 0.0, -1e3, 1e3, 1e-9),
    ('log10(pow)', 'LOG10(POWER(10,v_x))', lambda x: x, -300, 300, 1e-9),
    ('pi', 'SIN(PI())+COS(PI())+v_x', lambda x: x - 1.0, -10, 10, 1e-12),
]


@st.composite
def ident_case(draw):
    i = draw(st.integers(0, len(IDENTS) - 1))
    name, f, want, lo, hi, tol = IDENTS[i]
    if lo > 0 and hi / lo > 1000:
        x = 10.0 ** draw(st.floats(math.log10(lo), math.log10(hi)))
        x = min(max(x, lo), hi)
    elif hi < 0 and lo / hi > 1000:
        x = -(10.0 ** draw(st.floats(math.log10(-hi), math.log10(-lo))))
        x = min(max(x, lo), hi)
    else:
        x = draw(st.one_of(st.floats(lo, hi, allow_nan=False), st.floats(max(lo, -2), min(hi, 2), allow_nan=False) if lo < 2 and hi > -2 and max(lo, -2) <= min(hi, 2) else st.floats(lo, hi)))
    return {'i': i, 'x': x}


def check_ident(case):
    name, f, want, lo, hi, tol = IDENTS[case['i']]
    x = case['x']
    if x == 0 and '/v_x' in f:
        raise Skip('zero')
    r = Env(vars={'v_x': x}).parse(f)
    w = want(x)
    g = r['result']
    scale = max(1.0, abs(w))
    if name == 'abs' or name == 'power3':
        scale = max(1.0, abs(x) ** (2 if name == 'abs' else 3))
    if r['error'] is not None or isinstance(g, bool) or not isinstance(g, (int, float)) or abs(g - w) > tol * scale + 1e-12 * scale:
        raise Violation('identity %s: %s with x=%r = %r, expected %r' % (name, f, x, r['error'] or g, w), r['error'] or enc(g), w)


# ---------------------------------------------------------------- PV

@st.composite
def pv_case(draw):
    rate = draw(st.one_of(st.sampled_from([0, 0.05, 0.1, 1, 10, -0.5, -0.9, 1e-3, -1e-3, 1e-6]), st.floats(-0.99, 10, allow_nan=False),
                          st.tuples(st.floats(-12, -3), st.booleans()).map(lambda t: (10 ** t[0]) * (-1 if t[1] else 1))))
    if rate != 0 and abs(rate) < 1e-12:
        rate = math.copysign(1e-12, rate)       # explored range of near-zero rates: +-1e-12 .. +-1e-3
    n = draw(st.one_of(st.integers(0, 600), st.floats(0, 600, allow_nan=False), st.integers(0, 40),
                       st.integers(-600, -1), st.floats(-600, 0, allow_nan=False), st.integers(-40, -1)))     # the annuity equation is stated for every period count
    pmt = draw(st.one_of(st.integers(-10 ** 6, 10 ** 6), st.floats(-1e9, 1e9, allow_nan=False)))
    fv = draw(st.one_of(st.none(), st.integers(-10 ** 6, 10 ** 6), st.floats(-1e9, 1e9, allow_nan=False)))
    typ = draw(st.sampled_from([None, 0, 1]))
    if fv is None and typ is not None:
        fv = 0
    return {'rate': rate, 'n': n, 'pmt': pmt, 'fv': fv, 'type': typ}


def check_pv(case):
    rate, n, pmt, fv, typ = case['rate'], case['n'], case['pmt'], case['fv'], case['type']
    vars_ = {'v_r': rate, 'v_n': n, 'v_p': pmt}
    args = 'v_r,v_n,v_p'
    if fv is not None:
        vars_['v_f'] = fv
        args += ',v_f'
    if typ is not None:
        vars_['v_t'] = typ
        args += ',v_t'
    f = 'PV(%s)' % args
    r = Env(vars=vars_).parse(f)
    g = r['result']
    # the other spellings of "future value 0" / "type 0": a blank slot, NULL, a blank variable, with either list separator - all must give the very same number
    if not fv and not typ and r['error'] is None:
        k = (int(abs(pmt)) + int(n)) % 6
        alt = ['PV(v_r,v_n,v_p,0,)', 'PV(v_r;v_n;v_p;0;)', 'PV(v_r,v_n,v_p,NULL,NULL)', 'PV(v_r,v_n,v_p,v_blank,v_blank)', 'PV(v_r,v_n,v_p,0,NULL)', 'PV(v_r,v_n,v_p,,0)'][k]
        r2 = Env(vars=dict(vars_, v_blank=None)).parse(alt)
        if r2['error'] is not None or r2['result'] != g:
            raise Violation('%s = %r but %s -> %r with %r (a blank future value / type means 0)' % (f, g, alt, r2['error'] or r2['result'], case), r2['error'] or enc(r2['result']), g)
    R, N, P, F, T = Fraction(rate), Fraction(n), Fraction(pmt), Fraction(fv or 0), Fraction(typ or 0)
    if abs(float(N) * math.log1p(rate)) > 600 if rate > -1 else True:
        raise Skip('ill-conditioned-or-overflow')
    if r['error'] is not None or isinstance(g, bool) or not isinstance(g, (int, float)) or not math.isfinite(g):
        raise Violation('%s with %r -> %r' % (f, case, r), r['error'] or enc(g), 'number')
    G = Fraction(g)
    if rate == 0:
        terms = [G, P * N, F]
        resid = G + P * N + F
    else:
        growth = (1 + mpf(rate)) ** mpf(n) if HAVE_MP else (1 + rate) ** n
        gr = Fraction(float(growth)) if not HAVE_MP else None
        if HAVE_MP:
            gm1 = mpmath.expm1(mpf(n) * mpmath.log1p(mpf(rate)))
            t1 = mpf(g) * growth
            t2 = mpf(pmt) * (1 + mpf(rate) * mpf(typ or 0)) * gm1 / mpf(rate)
            t3 = mpf(fv or 0)
            resid = t1 + t2 + t3
            scale = abs(t1) + abs(t2) + abs(t3)
            tol = mpf('1e-9')
            if abs(resid) > tol * scale + mpf('1e-9'):
                raise Violation('%s with %r = %r leaves residual %s of the annuity equation (scale %s)' % (f, case, g, float(resid), float(scale)), g, None)
            return
        t1 = G * gr
        t2 = P * (1 + R * T) * (gr - 1) / R
        terms = [t1, t2, F]
        resid = t1 + t2 + F
    scale = sum(abs(t) for t in terms)
    if abs(resid) > Fraction(1, 10 ** 9) * scale + Fraction(1, 10 ** 9):
        raise Violation('%s with %r = %r leaves residual %r of the annuity equation' % (f, case, g, float(resid)), g, None)


# ---------------------------------------------------------------- RAND / RANDBETWEEN

def check_rand(case):
    a, b = case
    r = pev('RAND()')
    g = r['result']
    if r['error'] is not None or isinstance(g, bool) or not isinstance(g, float) or not (0.0 <= g < 1.0):
        raise Violation('RAND() -> %r' % (r,), r['error'] or enc(g), '[0,1)')
    # the end points of the random source itself (probability 2^-53 each when sampling): the harness owns the source for one call
    import random as _random
    real = _random.random
    for draw_ in (0.0, 2.0 ** -53, 1 - 2.0 ** -53, 0.5):
        _random.random = lambda d=draw_: d
        try:
            r = pev('RAND()')
        finally:
            _random.random = real
        g = r['result']
        if r['error'] is not None or isinstance(g, bool) or not isinstance(g, float) or not (0.0 <= g < 1.0):
            raise Violation('RAND() -> %r when the random source draws %r' % (r, draw_), r['error'] or enc(g), '[0,1)')
    lo, hi = min(a, b), max(a, b)
    f = 'RANDBETWEEN(%s,%s)' % (lit(lo), lit(hi))
    r = pev(f)
    g = r['result']
    if r['error'] is not None or isinstance(g, bool) or not isinstance(g, int) or not (lo <= g <= hi):
        raise Violation('%s -> %r' % (f, r), r['error'] or enc(g), [lo, hi])
    # the same whole-number bounds arriving as floats (a decimal literal, a quotient, a host float) or as text
    forms = ['RANDBETWEEN(%s,%s)' % (lit(float(lo)), lit(hi)), 'RANDBETWEEN(%s,(%s*2)/2)' % (lit(lo), lit(hi)), 'RANDBETWEEN("%d","%d")' % (lo, hi), 'RANDBETWEEN(v_lo,v_hi)', 'RANDBETWEEN(%s,v_hi)' % lit(lo)]
    f = forms[(lo + hi) % len(forms)]
    r = Env(vars={'v_lo': float(lo), 'v_hi': float(hi)}).parse(f)
    g = r['result']
    if r['error'] is not None or isinstance(g, bool) or not isinstance(g, (int, float)) or g != int(g) or not (lo <= g <= hi):
        raise Violation('%s (v_lo = %r, v_hi = %r) -> %r' % (f, float(lo), float(hi), r), r['error'] or enc(g), [lo, hi])


unary_case = st.fixed_dictionaries({'f': st.sampled_from(UNARY), 'x': reals(), 'how': st.sampled_from(['var', 'var', 'lit', 'text'])})
junk_text = st.one_of(st.text(st.sampled_from('qxzkwvg_!?'), min_size=1, max_size=6),
                      # text that reads as something else than a number: dates, times, fractions, lists, words
                      st.sampled_from(['2020-01-01', '1/2/2020', 'may', 'may 5', 'jan 2020', '12:30', '3 pm', '1;2', '5 May 2021', 'monday', 'today', 'now', '2020-01-01T10:00:00', 'one', '1 2', '12-31', '--1', '1+1', '=1',
                                       '0x10', 'TRUE1', '#N/A1']))      # not here: "$5", "(1)", "1%", "1,000", "1_0" - spellings some spreadsheet or Python itself reads as a number

LAWS = [
    Law('unary_values', check_unary, strategy=unary_case, quick=12000, thorough=500000, shards=(8, 16), classes=unary_classes,
        required=('in-domain', 'outside-domain', 'how:var', 'how:lit', 'how:text'),
        key=lambda c: c['f'] + (':zero' if c['x'] == 0 else ''),
        nontrivial=lambda c: abs(c['x']) not in (0, 0.5, 1, 2) or c['how'] == 'text' or not DOM[c['f']](c['x']),
        rule='22 unary functions x reals (grids of +-0, 1 ulp, 1e-9, 1e-3 around -1, 0, 1, +-pi/2, +-pi, integers -10..10; log-uniform 1e-9..1e9 both signs) given as variable, literal or numeric text: '
             'inside the domain the value equals the 50-digit reference within 1e-9 relative + 1e-12; outside it the outcome is an error; non-trivial = |x| not in {0, 0.5, 1, 2} or text argument or outside the domain'),
    Law('integer_arguments', check_unary, quick=1000, thorough=60000, shards=(4, 8),
        strategy=st.fixed_dictionaries({'f': st.sampled_from(['SQRT', 'ABS', 'LN', 'LOG10', 'ATAN', 'ASINH', 'DEGREES', 'RADIANS', 'ACOSH', 'ACOT']),
                                        'x': st.one_of(st.integers(2 ** 53, 10 ** 30), st.integers(-10 ** 30, -2 ** 53), st.sampled_from([10 ** 17, 2 ** 53, 2 ** 60 + 1, 3 ** 40, 10 ** 20 - 1, 2 ** 100]), st.integers(0, 1000),
                                                       st.sampled_from([2 ** 1024, 10 ** 400, 2 ** 1023, 7 ** 500]), st.sampled_from([-(10 ** 16) - 1, -(10 ** 16) - 3, -(2 ** 60) - 1, -(10 ** 17) - 9, -(3 ** 40)])),      # negative integers whose double is not the integer (outside the domain of half of these functions)
                                        'how': st.sampled_from(['var', 'lit', 'text'])}),
        key=lambda c: c['f'], nontrivial=lambda c: abs(c['x']) >= 2 ** 53,
        rule='10 unary functions whose value exists for large arguments x Python integers of 2^53..10^30 (either sign; exact integers such as POWER(10,17) or a long literal produce) and 0..1000, '
             'as variable, literal or text: same criterion as unary_values (1e-9 relative against the 50-digit reference; an error outside the domain)'),
    Law('coercion', check_coercion, quick=1500, thorough=40000, shards=(4, 8),
        strategy=st.fixed_dictionaries({'f': st.sampled_from(UNARY), 'w': st.sampled_from(['text', 'text', 'true', 'false']), 'x': reals(), 'junk': junk_text,
                                        'sp': st.one_of(st.none(), st.integers(0, 21)), 'lit': st.booleans()}),
        classes=lambda c: (('spelling:' + SPELLINGS[c['sp'] % len(SPELLINGS)][0]) if c['w'] == 'text' and c['sp'] is not None else 'w:' + c['w'],),
        required=('spelling:.5', 'spelling:-.25', 'spelling:+3', 'spelling:007', 'w:true', 'w:false'),
        rule='f("x") = f(x) for repr spellings and for 17 other spellings of numbers as text (leading dot, explicit sign, leading/trailing zeros) given as variable or string literal, f(TRUE) = f(1), f(FALSE) = f(0) for every unary function; non-numeric text -> error'),
    Law('atan2', check_atan2, quick=3000, thorough=100000,
        strategy=st.fixed_dictionaries({'x': st.one_of(st.sampled_from([0.0, 1.0, -1.0, 0.5, -2.0]), reals()), 'y': st.one_of(st.sampled_from([0.0, 0.0, 1.0, -1.0]), reals()),
                                        'sx': st.sampled_from(['num', 'num', 'text', 'bool']), 'sy': st.sampled_from(['num', 'num', 'text', 'bool'])}),
        classes=lambda c: (('origin' if c['x'] == 0 and c['y'] == 0 else ('x-axis' if c['y'] == 0 else ('y-axis' if c['x'] == 0 else 'quadrant'))),) + (('origin-as-text',) if c['x'] == 0 and c['y'] == 0 and 'text' in (c['sx'], c['sy']) else ()),
        required=('origin', 'x-axis', 'y-axis', 'quadrant', 'origin-as-text'), key=lambda c: 'x-axis' if c['y'] == 0 and c['x'] != 0 else '',
        nontrivial=lambda c: not (c['x'] == 1 and c['y'] in (1, 0.8)),
        rule='ATAN2(x,y) over all four quadrants and both axes, each coordinate given as a number, as text spelling it or (0, 1) as a logical: r cos t = x, r sin t = y, t in (-pi,pi]; #DIV/0! exactly at the origin'),
    Law('log_power', check_log_power, quick=3000, thorough=100000,
        strategy=st.fixed_dictionaries({'k': st.sampled_from(['LOG', 'POWER']), 'a': st.one_of(reals(), st.sampled_from([0.0, 1.0, 2.0, 10.0])),
                                        'b': st.one_of(reals().filter(lambda v: abs(v) < 400), st.sampled_from([0.0, 1.0, 2.0, 10.0, -1.0, 0.5, 3.0])), 'ten': st.booleans()}),
        rule='LOG(x,b) = ln x / ln b for x>0, b>0, b!=1 and error otherwise; LOG10(x) = LOG(x,10) = LOG(x); POWER(x,y) vs reference, error for 0^negative and negative^fraction'),
    Law('identities', check_ident, strategy=ident_case(), quick=6000, thorough=200000, shards=(8, 16),
        key=lambda c: IDENTS[c['i']][0], classes=lambda c: (IDENTS[c['i']][0],), required=tuple(i[0] for i in IDENTS),
        rule='29 defining identities evaluated as single formulas (sin^2+cos^2, TAN=SIN/COS, COT=1/TAN, EXP/LN, each inverse pair on its principal range, DEGREES/RADIANS, SQRT, POWER) at 1e-9 (1e-7 where the inverse is ill-conditioned near the ends)'),
    Law('pv', check_pv, strategy=pv_case(), quick=3000, thorough=100000,
        classes=lambda c: (('rate0' if c['rate'] == 0 else ('tiny-rate' if abs(c['rate']) < 1e-3 else 'rate')), 'type:%r' % c['type'],
                           'periods<0' if c['n'] < 0 else 'periods>=0'),
        required=('rate0', 'tiny-rate', 'rate', 'type:1', 'type:0', 'type:None', 'periods<0', 'periods>=0'),
        rule='(rate > -1 incl. 0 and +-1e-12..1e-3, periods -600..600 integer/real, payment/future up to 1e9 of any sign, type 0/1/omitted): residual of the annuity equation <= 1e-9 of the sum of term magnitudes'),
    Law('rand', check_rand, strategy=st.tuples(st.integers(-10 ** 6, 10 ** 6), st.integers(-10 ** 6, 10 ** 6)).map(list), quick=1000, thorough=100000,
        rule='RAND() in [0,1), also when the random source draws its end points; RANDBETWEEN(a,b) an integer in [a,b] (range predicate only), the whole-number bounds given as integers and as floats, quotients, text or host floats'),
]

LEVEL_TEXT = 'Hypothesis exploration: every elementary function against a 50-digit mpmath reference on boundary grids and nine decades of magnitude, domain errors, 29 identities through single formulas, ATAN2 geometry, PV residual, RAND ranges. Floating-point tolerance stated; does not cover every double.'
LEVEL_NOTE = 'Trusted: mpmath (from the offline wheelhouse) as the reference for elementary functions. Ill-conditioned points (ACOSH next to 1, TAN/COT next to a pole, EXP / SINH / COSH where the value leaves the double range) are excluded and counted.'
TECHNIQUE = 'Hypothesis differential testing against a high-precision reference (mpmath) + metamorphic identities'
