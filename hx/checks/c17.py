"""C17 - rounding and integer functions meet their specs; radix conversions invert; every call terminates."""
import math
from fractions import Fraction

from hypothesis import strategies as st

from ..budget import run_with_budget, BudgetExceeded, text_budget
from ..env import Env, pev, lit, float_literal
from ..law import Law, Violation, Skip
from ..ref import roman as rroman
from ..values import enc

RULE = 'C17: integers, dyadic and decimal fractions of either sign; digits -6..6; 40-bit range; radices; all ROMAN calls'
ASSUMPTIONS = ['inequalities characterising ROUNDUP/ROUNDDOWN/CEILING/FLOOR carry a slack of 1e-9*max(1,|x|) so that x*10**d landing one ulp across an integer is not an alarm',
               'magnitudes are bounded so that |x|*10**digits < 2**52 (beyond that doubles cannot represent the specified result)',
               'positive number with negative significance, zero significance, logical arguments and non-integer FACT arguments are not decided by the statement and not generated',
               'termination is decided by a count of Python line events inside hotxlfp/ply (budget 50000+2000*len(text)), not by wall clock']

DIGITS = '0123456789ABCDEFGHIJKLMNOPQRSTUVWXYZ'


def num_lit(x):
    return lit(x)


def fr(x):
    return Fraction(x)


def outcome(f, env=None):
    try:
        (r, n) = run_with_budget(lambda: (env.parse(f) if env is not None else pev(f)), text_budget(f))
    except BudgetExceeded:
        raise Violation('%s did not finish within %d line events' % (f, text_budget(f)), 'no result within the step budget', 'terminates')
    return r


def number_result(f, env=None):
    r = outcome(f, env)
    g = r['result']
    if r['error'] is not None or isinstance(g, bool) or not isinstance(g, (int, float)) or (isinstance(g, float) and not math.isfinite(g)):
        raise Violation('%s -> %r, expected a number' % (f, r), r['error'] if r['error'] else enc(g), 'number')
    return g


def must_error(f, env=None):
    r = outcome(f, env)
    if r['error'] is None:
        raise Violation('%s -> %r, expected an error' % (f, r['result']), enc(r['result']), 'error')


def eps_for(x):
    return Fraction(1, 10 ** 9) * max(1, abs(fr(x)))


def is_multiple(r, unit, x):
    q = fr(r) / unit
    k = round(q)
    return abs(fr(r) - k * unit) <= eps_for(max(abs(r), abs(x))) * Fraction(1, 1000) + abs(fr(r)) * Fraction(1, 2 ** 50)


# ---------------------------------------------------------------- generators

def numbers(maxmag=10 ** 15):
    ints = st.one_of(st.sampled_from([0, 1, -1, 2, -2, 5, -5, 10, -10]), st.integers(-1000, 1000), st.integers(-maxmag, maxmag))
    dyadic = st.tuples(st.integers(-10 ** 7, 10 ** 7), st.integers(1, 10)).map(lambda t: t[0] / float(2 ** t[1]))
    decimal = st.tuples(st.integers(-10 ** 7, 10 ** 7), st.integers(1, 6)).map(lambda t: t[0] / float(10 ** t[1]))
    return st.one_of(ints, dyadic, decimal, ints, dyadic, decimal, st.sampled_from([0.0, -0.0, 0, 1e-9, -1e-9]))       # -0.0: what ROUND(-0.4,0), MOD(4.0,-2) or 0*-1.5 produce


@st.composite
def round_case(draw):
    d = draw(st.integers(-6, 6))
    x = draw(numbers(10 ** (15 - max(d, 0))))
    if abs(x) * 10 ** max(d, 0) >= 2 ** 52:
        x = x / 1024.0
    return {'x': x, 'd': d, 'var': draw(st.booleans())}


def check_round(case):
    x, d = case['x'], case['d']
    env = Env(vars={'v_x': x})
    X = 'v_x' if case['var'] else num_lit(x)
    Dg = str(d) if d >= 0 else '-%d' % -d
    u = Fraction(10) ** (-d)
    e = eps_for(x)
    ax = abs(fr(x))
    r = number_result('ROUND(%s,%s)' % (X, Dg), env)
    if not is_multiple(r, u, x) or abs(fr(r) - fr(x)) > u / 2 + e:
        raise Violation('ROUND(%r,%d) = %r is not a multiple of 10^-%d within half a unit' % (x, d, r, d), r, None)
    r = number_result('ROUNDUP(%s,%s)' % (X, Dg), env)
    ar = abs(fr(r))
    if not is_multiple(r, u, x) or ar < ax - e or ar - ax >= u + e or (r != 0 and x != 0 and (r > 0) != (x > 0)):
        raise Violation('ROUNDUP(%r,%d) = %r is not the multiple of 10^-%d at or next above in magnitude' % (x, d, r, d), r, None)
    r = number_result('ROUNDDOWN(%s,%s)' % (X, Dg), env)
    ar = abs(fr(r))
    if not is_multiple(r, u, x) or ar > ax + e or ax - ar >= u + e or (r != 0 and x != 0 and (r > 0) != (x > 0)):
        raise Violation('ROUNDDOWN(%r,%d) = %r is not the multiple of 10^-%d at or next below in magnitude' % (x, d, r, d), r, None)


@st.composite
def signif_case(draw):
    s = draw(st.one_of(st.sampled_from([1, -1, 2, -2, 5, 10, 0.5, -0.5, 0.25, 0.1, 3, 7, -3]),
                       st.integers(1, 1000), st.integers(-1000, -1),
                       st.tuples(st.integers(1, 4000), st.integers(1, 6)).map(lambda t: t[0] / float(2 ** t[1])),
                       st.tuples(st.integers(1, 4000), st.integers(1, 3)).map(lambda t: -t[0] / float(10 ** t[1]))))
    x = draw(numbers(10 ** 12))
    k = draw(st.integers(0, 9))
    if k == 0:
        # a small fraction against a huge significance, and the other way round: the quotient is tiny / huge
        x = draw(st.sampled_from([0.000001, -0.000001, 0.25, -0.5, 0.001, 3.5e-7, 1e-9]))
        s = draw(st.sampled_from([10000, 5000000, 4000000000, 10 ** 12, -4000000000, -10000]))
    elif k == 1:
        # a number a hair past a multiple of the significance
        m = draw(st.integers(-1000, 1000))
        s = draw(st.sampled_from([1, 2, 0.5, 10, -1, -2]))
        x = m * abs(s) + draw(st.sampled_from([2.0 ** -40, -2.0 ** -40, 2.0 ** -30, -2.0 ** -30])) * max(1, abs(m * s))
    return {'x': x, 's': s, 'var': draw(st.booleans()), 'alias': draw(st.sampled_from(['', '', '.MATH', '.PRECISE']))}


def check_signif(case):
    x, s = case['x'], case['s']
    if x > 0 and s < 0:
        raise Skip('positive-number-negative-significance')
    env = Env(vars={'v_x': x, 'v_s': s})
    X, S = ('v_x', 'v_s') if case['var'] else (num_lit(x), num_lit(s))
    unit = abs(fr(s))
    e = eps_for(x)
    fx = fr(x)
    for name, up in (('CEILING', True), ('FLOOR', False)):
        f = '%s%s(%s,%s)' % (name, case['alias'], X, S)
        r = number_result(f, env)
        frr = fr(r)
        if not is_multiple(r, unit, x):
            raise Violation('%s = %r is not a multiple of %r' % (f.replace('v_x', repr(x)).replace('v_s', repr(s)), r, s), r, None)
        if abs(frr - fx) >= unit + e:
            raise Violation('%s(%r,%r) = %r is not adjacent to the number' % (name, x, s, r), r, None)
        if x >= 0 or s > 0:
            toward_plus = up            # x>=0: CEILING up / FLOOR down; x<0,s>0: CEILING toward +inf, FLOOR toward -inf
        else:
            toward_plus = not up        # x<0,s<0: CEILING away from zero (toward -inf), FLOOR toward zero
        if toward_plus and frr < fx - e:
            raise Violation('%s(%r,%r) = %r lies below the number' % (name, x, s, r), r, None)
        if (not toward_plus) and frr > fx + e:
            raise Violation('%s(%r,%r) = %r lies above the number' % (name, x, s, r), r, None)
    if s == 1 or s == 1.0:
        # the significance left out is the significance 1 (the default of the function and of Excel's CEILING.MATH/FLOOR.MATH), for either sign of the number
        r = number_result('CEILING(%s)' % X, env)
        if r != math.ceil(fx):
            raise Violation('CEILING(%r) = %r with the significance left out; CEILING(%r,1) is %r' % (x, r, x, math.ceil(fx)), r, math.ceil(fx))
        r = number_result('FLOOR(%s)' % X, env)
        if r != math.floor(fx):
            raise Violation('FLOOR(%r) = %r with the significance left out; FLOOR(%r,1) is %r' % (x, r, x, math.floor(fx)), r, math.floor(fx))


def check_int_family(case):
    x = case['x']
    env = Env(vars={'v_x': x})
    X = 'v_x' if case['var'] else num_lit(x)
    fx = fr(x)
    r = number_result('INT(%s)' % X, env)
    if r != math.floor(fx):
        raise Violation('INT(%r) = %r, floor is %r' % (x, r, math.floor(fx)), r, math.floor(fx))
    for name, parity in (('EVEN', 0), ('ODD', 1)):
        r = number_result('%s(%s)' % (name, X), env)
        ok = fr(r).denominator == 1 and int(r) % 2 == parity and abs(fr(r)) >= abs(fx) and abs(fr(r)) - abs(fx) < 2
        if ok and x != 0 and r != 0:
            ok = (r > 0) == (x > 0)
        if x == 0 and r != parity:
            ok = False
        if not ok:
            raise Violation('%s(%r) = %r is not the nearest %s integer at or beyond the number away from zero' % (name, x, r, name.lower()), r, None)
    r = number_result('SIGN(%s)' % X, env)
    want = (x > 0) - (x < 0)
    if r != want:
        raise Violation('SIGN(%r) = %r' % (x, r), r, want)


@st.composite
def divmod_case(draw):
    big = draw(st.booleans())
    if big:
        a = draw(st.integers(-2 ** 53, 2 ** 53))
        b = draw(st.one_of(st.integers(-2 ** 53, 2 ** 53), st.integers(-1000, 1000)))
    else:
        a = draw(numbers(10 ** 9))
        b = draw(st.one_of(numbers(10 ** 6), st.sampled_from([0, 1, -1, 3, -3, 0.5, 0.1, -0.1, 7])))
    return {'a': a, 'b': b, 'var': draw(st.booleans())}


def check_divmod(case):
    a, b = case['a'], case['b']
    env = Env(vars={'v_a': a, 'v_b': b})
    A, B = ('v_a', 'v_b') if case['var'] else (num_lit(a), num_lit(b))
    if b == 0:
        must_error('QUOTIENT(%s,%s)' % (A, B), env)
        must_error('MOD(%s,%s)' % (A, B), env)
        return
    q = fr(a) / fr(b)
    tq = math.trunc(q)
    r = number_result('QUOTIENT(%s,%s)' % (A, B), env)
    if r != tq:
        near = q.denominator != 1 and min(abs(q - math.floor(q)), abs(math.ceil(q) - q)) <= abs(q) * Fraction(1, 10 ** 12)
        # with a float operand the quotient is a double: beyond 2^52 neighbouring doubles are 2, 4, ... apart
        slack = 1 if not (isinstance(a, float) or isinstance(b, float)) else max(1, abs(tq) // 2 ** 51)
        if not ((near or slack > 1) and abs(r - tq) <= slack):
            raise Violation('QUOTIENT(%r,%r) = %r, truncated quotient is %r' % (a, b, r, tq), r, tq)
    r = number_result('MOD(%s,%s)' % (A, B), env)
    frr = fr(r)
    if r != 0 and (r > 0) != (b > 0):
        raise Violation('MOD(%r,%r) = %r does not have the sign of the divisor' % (a, b, r), r, None)
    if abs(frr) >= abs(fr(b)):
        raise Violation('MOD(%r,%r) = %r is not smaller than the divisor' % (a, b, r), r, None)
    k = (fr(a) - frr) / fr(b)
    exact = isinstance(a, int) and isinstance(b, int)
    if (exact and k.denominator != 1) or (not exact and abs(k - round(k)) > Fraction(1, 10 ** 6)):
        raise Violation('MOD(%r,%r) = %r: (number - MOD)/divisor = %r is not an integer' % (a, b, r, float(k)), r, None)


# ---------------------------------------------------------------- integers beyond the double-exact range: exact integer arithmetic

POWERS = {3 ** 40: '3^40', 7 ** 22: '7^22', 2 ** 64: '2^64', 5 ** 27: '5^27', 3 ** 34: '3^34', 11 ** 17: '11^17', 10 ** 18: '10^18'}      # integer^integer is a numeric literal that spells an exact integer


@st.composite
def bigint_case(draw):
    x = draw(st.one_of(st.integers(2 ** 52, 2 ** 70), st.integers(-2 ** 70, -2 ** 52),
                       st.sampled_from([2 ** 53 + 1, 2 ** 52 + 1, -(2 ** 53) - 1, 10 ** 17 + 1, 3 ** 40, 12345678901234567890, 4503599627370497, 10 ** 20 - 1, -(10 ** 18) - 5]),
                       st.sampled_from(sorted(POWERS))))
    return {'x': x, 'd': draw(st.integers(-6, 6)), 's': draw(st.sampled_from([1, 2, 3, 5, 7, 10, 1000, -1, -2, -7, 10 ** 6 + 1])),
            'b': draw(st.one_of(st.sampled_from([1, 2, -2, 3, 10, -10, 7, 2 ** 40 + 1]), st.integers(-10 ** 6, 10 ** 6).filter(lambda v: v != 0))), 'var': draw(st.booleans())}


def check_bigint(case):
    x, d, s, b = case['x'], case['d'], case['s'], case['b']
    env = Env(vars={'v_x': x, 'v_s': s, 'v_b': b})
    X, S, B = ('v_x', 'v_s', 'v_b') if case['var'] else (num_lit(x), num_lit(s), num_lit(b))
    if x in POWERS and not case['var']:
        X = POWERS[x]
    Dg = str(d) if d >= 0 else '-%d' % -d
    ax, sg = abs(x), (1 if x > 0 else -1)
    u = 10 ** max(-d, 0)

    def exact(f, want, what):
        r = number_result(f.format(X=X, S=S, B=B, D=Dg), env)
        if r != want or (isinstance(r, float) and int(r) != want):
            raise Violation('%s = %r; %s is exactly %d' % (f.format(X=x, S=s, B=b, D=d), r, what, want), enc(r), want)
    r = number_result('ROUND(%s,%s)' % (X, Dg), env)
    if fr(r).denominator != 1 or int(fr(r)) % u != 0 or abs(fr(r) - x) * 2 > u:
        raise Violation('ROUND(%d,%d) = %r is not a multiple of %d within half a unit of the number' % (x, d, r, u), enc(r), None)
    exact('ROUNDUP({X},{D})', sg * -(-ax // u) * u, 'the multiple of %d at or next above in magnitude' % u)
    exact('ROUNDDOWN({X},{D})', sg * (ax // u) * u, 'the multiple of %d at or next below in magnitude' % u)
    exact('INT({X})', x, 'the floor')
    exact('EVEN({X})', sg * (ax + ax % 2), 'the even integer at or beyond')
    exact('ODD({X})', sg * (ax + 1 - ax % 2), 'the odd integer at or beyond')
    exact('SIGN({X})', sg, 'the sign')
    # the same number 1000 binary places up: an integer that no double holds at all (2^1052 and beyond) is an integer still
    h = x * 2 ** 1000
    envh = Env(vars={'v_h': h, 'v_b': b})
    qh = abs(h) // abs(b)
    for f, want in (('SIGN(v_h)', sg), ('INT(v_h)', h), ('EVEN(v_h)', h), ('ODD(v_h)', sg * (abs(h) + 1)), ('QUOTIENT(v_h,v_b)', qh if (h > 0) == (b > 0) else -qh), ('MOD(v_h,v_b)', h % b)):
        r = number_result(f, envh)
        if isinstance(r, bool) or not isinstance(r, int) or r != want:
            raise Violation('%s with v_h = %d * 2^1000, v_b = %d gives %s, not the exact integer' % (f, x, b, ('%r' % r)[:60]), ('%r' % r)[:60], None)
    q = ax // abs(b)
    exact('QUOTIENT({X},{B})', q if (x > 0) == (b > 0) else -q, 'the truncated quotient')
    exact('MOD({X},{B})', x % b, 'the remainder with the sign of the divisor')
    if not (x > 0 and s < 0):
        m = abs(s)
        if x >= 0 or s > 0:
            up, down = -(-x // m) * m, (x // m) * m                 # toward +inf / toward -inf
        else:
            up, down = -(-(-ax) // m) * m, (-ax // m) * m           # x<0, s<0: CEILING away from zero, FLOOR toward zero
            up, down = down, up
        exact('CEILING({X},{S})', up, 'the adjacent multiple of %d on the CEILING side' % m)
        exact('FLOOR({X},{S})', down, 'the adjacent multiple of %d on the FLOOR side' % m)


def enum_fact(tier, shard, nshards):
    for n in range(-6, 171):
        if n % nshards == shard:
            yield n
    if shard == 0:
        for x in (-0.5, -0.25, -0.999, -1e-9, -1.5, -2.75):
            yield x


def check_fact(n):
    N = num_lit(n)
    if n < 0:
        must_error('FACT(%s)' % N)
        must_error('FACTDOUBLE(%s)' % N)
        return
    r = number_result('FACT(%s)' % N)
    if r != math.factorial(n):
        raise Violation('FACT(%d) = %r' % (n, r), r, math.factorial(n))
    dd = 1
    for k in range(n, 1, -2):
        dd *= k
    r = number_result('FACTDOUBLE(%s)' % N)
    if r != dd:
        raise Violation('FACTDOUBLE(%d) = %r' % (n, r), r, dd)


LO, HI = -2 ** 39, 2 ** 39 - 1
hex_in = st.one_of(st.integers(LO, HI), st.integers(LO, LO + 64), st.integers(HI - 64, HI), st.integers(-70, 70),
                   st.tuples(st.integers(0, 9), st.integers(-1, 1)).map(lambda t: 16 ** t[0] + t[1]),
                   st.tuples(st.integers(0, 9), st.integers(-1, 1)).map(lambda t: -(16 ** t[0]) + t[1]))
hex_out = st.one_of(st.integers(HI + 1, 2 ** 41), st.integers(-2 ** 41, LO - 1), st.sampled_from([HI + 1, LO - 1, 2 ** 40, -2 ** 40, 2 ** 40 - 1]))


def check_hex(case):
    n = case['n']
    env = Env(vars={'v_n': n})
    N = 'v_n' if case['var'] else num_lit(n)
    if LO <= n <= HI:
        f = 'HEX2DEC(DEC2HEX(%s))' % N
        r = number_result(f, env)
        if r != n:
            raise Violation('HEX2DEC(DEC2HEX(%d)) = %r' % (n, r), r, n)
        t = outcome('DEC2HEX(%s)' % N, env)
        s = t['result']
        want = '%X' % (n if n >= 0 else n + 2 ** 40)
        if t['error'] is not None or s != want:
            raise Violation('DEC2HEX(%d) = %r, expected %r' % (n, t, want), enc(s), want)
        r = number_result('HEX2DEC("%s")' % want, env)
        if r != n:
            raise Violation('HEX2DEC("%s") = %r' % (want, r), r, n)
        r = number_result('HEX2DEC("%s")' % want.lower(), env)
        if r != n:
            raise Violation('HEX2DEC("%s") = %r' % (want.lower(), r), r, n)
        # with a places argument that leaves room for every digit the round trip is the same (what too small a count does is not stated)
        places = len(want) + (abs(n) % (11 - len(want)))
        f = 'HEX2DEC(DEC2HEX(%s,%d))' % (N, places)
        r = number_result(f, env)
        if r != n:
            raise Violation('%s = %r for n = %d' % (f, r, n), r, n)
    else:
        must_error('DEC2HEX(%s)' % N, env)
        h = '%X' % abs(n)
        if len(h) > 10:
            must_error('HEX2DEC("%s")' % h, env)


def positional(text, radix):
    v = 0
    for ch in text:
        d = DIGITS.find(ch)
        if d < 0 or d >= radix:
            return None
        v = v * radix + d
    return v


@st.composite
def base_case(draw):
    kind = draw(st.integers(0, 9))
    if kind <= 5:
        n = draw(st.one_of(st.integers(0, 2 ** 39 - 1), st.integers(0, 1300), st.sampled_from([0, 1, 9, 10, 35, 36, 255, 2 ** 39 - 1])))
        r = draw(st.integers(2, 36))
    elif kind == 6:
        n = draw(st.integers(0, 2 ** 39 - 1))
        r = draw(st.sampled_from([-1, 0, 1, 37, 100, -16]))
    elif kind == 7:
        n = draw(st.integers(-2 ** 39, -1))
        r = draw(st.integers(2, 36))
    elif kind == 8:
        n = draw(st.integers(1, 2 ** 20))
        r = draw(st.sampled_from([0.5, 1.5, 36.5, 37.5, 1e9, -2.5, 0.999]))
    else:
        # exact powers of the radix and their neighbours (digit-count boundaries)
        r = draw(st.integers(2, 36))
        k = draw(st.integers(0, 39))
        while r ** k >= 2 ** 39:
            k -= 1
        n = max(0, r ** k + draw(st.sampled_from([0, 0, -1, 1])))
    places = draw(st.one_of(st.none(), st.none(), st.integers(0, 45))) if kind <= 5 else None
    return {'n': n, 'r': r, 'places': places, 'var': draw(st.booleans())}


def check_base(case):
    n, r, places = case['n'], case['r'], case['places']
    env = Env(vars={'v_n': n, 'v_r': r})
    N, R = ('v_n', 'v_r') if case['var'] else (num_lit(n), num_lit(r))
    valid = isinstance(r, int) and 2 <= r <= 36 and n >= 0
    if not valid:
        if isinstance(r, float) and 2 <= r < 37:
            o = outcome('BASE(%s,%s)' % (N, R), env)   # fractional radix inside 2..36: only termination is stated
            return
        must_error('BASE(%s,%s)' % (N, R), env)
        return
    call = 'BASE(%s,%s%s)' % (N, R, '' if places is None else ',%d' % places)
    t = outcome(call, env)
    s = t['result']
    if places is not None and t['error'] is not None:
        ndig = 1
        while r ** ndig <= n:
            ndig += 1
        if ndig > places:
            return          # too few places: an error is the documented outcome
    if t['error'] is not None or not isinstance(s, str) or not s:
        raise Violation('BASE(%d,%d) -> %r' % (n, r, t), t['error'] or enc(s), 'digits')
    v = positional(s, r)
    if v != n:
        raise Violation('BASE(%d,%d%s) = %r, which denotes %r in radix %d with digits 0-9A-Z' % (n, r, '' if places is None else ',%d' % places, s, v, r), s, None)
    f = 'DECIMAL(BASE(%s,%s),%s)' % (N, R, R)
    g = number_result(f, env)
    if g != n:
        raise Violation('DECIMAL(BASE(%d,%d),%d) = %r' % (n, r, r, g), g, n)


def enum_roman(tier, shard, nshards):
    # first a few numbers whose numerals stop early in the table of numerals (a table remembered from the first call must still serve the later ones)
    for n in (1000, 3000, 499, 10, 900, 1994):
        yield n
    for n in range(1, 4000):
        if n % nshards == shard:
            yield n
    if shard == 0:
        for n in (0, 4000, -1, 4001, -3999):
            yield n


def check_roman(n):
    if not (1 <= n <= 3999):
        must_error('ROMAN(%s)' % num_lit(n))
        for form in (0, 4):
            must_error('ROMAN(%s,%d)' % (num_lit(n), form))
        return
    parts = ['ROMAN(%d)' % n] + ['ROMAN(%d,%d)' % (n, f) for f in range(5)] + ['ARABIC(ROMAN(%d))' % n, 'ARABIC(ROMAN(%d,0))' % n]
    f = '{' + ','.join(parts) + '}'
    t = outcome(f)
    if t['error'] is not None or not isinstance(t['result'], list) or len(t['result']) != len(parts):
        raise Violation('%s -> %r' % (f, t), t['error'] or enc(t['result']), None)
    res = t['result']
    for p, s in zip(parts[:6], res[:6]):
        if not isinstance(s, str) or rroman.denotes(s) != n:
            raise Violation('%s = %r does not denote %d (denotes %r)' % (p, s, n, rroman.denotes(s) if isinstance(s, str) else None), enc(s), n)
    if res[0] != res[1]:
        raise Violation('ROMAN(%d) = %r differs from ROMAN(%d,0) = %r' % (n, res[0], n, res[1]), res[0], res[1])
    for p, g in zip(parts[6:], res[6:]):
        if isinstance(g, bool) or g != n:
            raise Violation('%s = %r' % (p, g), enc(g), n)
    # the same number arriving as a float (a quotient, a host variable) or as text
    form = n % 5
    env = Env(vars={'v_f': float(n), 'v_t': str(n)})
    parts2 = ['ROMAN(%d/1,%d)' % (n, form), 'ROMAN(v_f,%d)' % form, 'ROMAN(v_t,%d)' % form, 'ARABIC(ROMAN(%d*2/2))' % n]
    t2 = outcome('{' + ','.join(parts2) + '}', env)
    want2 = [res[1 + form]] * 3 + [n]
    if t2['error'] is not None or t2['result'] != want2:
        raise Violation('%s with v_f = %r, v_t = %r -> %r, expected %r (what the integer literal gives)' % (parts2, float(n), str(n), t2['error'] or t2['result'], want2), t2['error'] or enc(t2['result']), enc(want2))
    lens = [len(s) for s in res[1:6]]
    if any(lens[i] < lens[i + 1] for i in range(4)):
        raise Violation('ROMAN(%d, form) gets longer with a more concise form: %r' % (n, res[1:6]), res[1:6], None)


def check_complex(case):
    a, b = case['a'], case['b']
    env = Env(vars={'v_a': a, 'v_b': b})
    A, B = ('v_a', 'v_b') if case['var'] else (num_lit(a), num_lit(b))
    r = number_result('IMREAL(COMPLEX(%s,%s))' % (A, B), env)
    if r != a:
        raise Violation('IMREAL(COMPLEX(%d,%d)) = %r' % (a, b, r), r, a)
    r = number_result('IMAGINARY(COMPLEX(%s,%s))' % (A, B), env)
    if r != b:
        raise Violation('IMAGINARY(COMPLEX(%d,%d)) = %r' % (a, b, r), r, b)


# ---------------------------------------------------------------- termination on the boundary set

BOUND = [-2 ** 40, -37, -2, -1, -0.5, 0, 0.5, 1, 2, 2.5, 36, 37, 3999, 4000, 2 ** 39, 10 ** 15, float('inf'), float('-inf'), float('nan'), '', 'a', 'aaa', '12', None, True, False]
TERM_FUNCS = [('BASE', 2), ('BASE', 3), ('ROMAN', 1), ('ROMAN', 2), ('ARABIC', 1), ('FACT', 1), ('FACTDOUBLE', 1), ('DEC2HEX', 1), ('DEC2HEX', 2),
              ('HEX2DEC', 1), ('DECIMAL', 2), ('ROUND', 2), ('ROUNDUP', 2), ('ROUNDDOWN', 2), ('CEILING', 2), ('FLOOR', 2), ('MOD', 2),
              ('QUOTIENT', 2), ('EVEN', 1), ('ODD', 1), ('INT', 1), ('SIGN', 1), ('COMPLEX', 2), ('IMREAL', 1), ('IMAGINARY', 1)]


def enum_term(tier, shard, nshards):
    i = 0
    for name, ar in TERM_FUNCS:
        idx = [range(len(BOUND))] * ar
        import itertools
        for tup in itertools.product(*idx):
            if ar == 3 and tier == 'quick' and (tup[0] * 7 + tup[1] * 3 + tup[2]) % 5:
                continue
            i += 1
            if i % nshards == shard:
                yield [name] + list(tup)


def check_term(case):
    name, idx = case[0], case[1:]
    vals = [BOUND[i] for i in idx]
    if name in ('FACT', 'FACTDOUBLE') and isinstance(vals[0], (int, float)) and not isinstance(vals[0], bool) and abs(vals[0]) > 4000 and vals[0] == vals[0] and abs(vals[0]) != float('inf'):
        raise Skip('big-integer-cost')
    if name in ('ROUND', 'ROUNDUP', 'ROUNDDOWN') and len(vals) > 1 and isinstance(vals[1], (int, float)) and not isinstance(vals[1], bool) and vals[1] == vals[1] and abs(vals[1]) > 4000:
        raise Skip('big-integer-cost')
    env = Env(vars=dict(('v_%s' % 'abc'[k], v) for k, v in enumerate(vals)))
    f = '%s(%s)' % (name, ','.join('v_%s' % 'abc'[k] for k in range(len(vals))))
    r = outcome(f, env)
    if not isinstance(r, dict) or set(r.keys()) != set(['result', 'error']):
        raise Violation('%s with %r -> %r' % (f, vals, r), repr(r), None)


def term_key(case):
    return 'BASE-termination' if case[0] == 'BASE' else ''


xs = st.fixed_dictionaries({'x': numbers(10 ** 15), 'var': st.booleans()})

LAWS = [
    Law('round', check_round, strategy=round_case(), quick=3000, thorough=200000,
        nontrivial=lambda c: c['d'] != 0 and (c['x'] < 0 or isinstance(c['x'], float)),
        classes=lambda c: (('neg' if c['x'] < 0 else 'nonneg'), ('d<0' if c['d'] < 0 else 'd>=0')), required=('neg', 'd<0'),
        rule='(x, digits): x integer / dyadic / decimal fraction of either sign, digits -6..6, |x|*10^digits < 2^52; ROUND within half a unit, ROUNDUP/ROUNDDOWN the adjacent multiple in magnitude; non-trivial = digits != 0 and x negative or fractional'),
    Law('ceiling_floor', check_signif, strategy=signif_case(), quick=3000, thorough=200000,
        nontrivial=lambda c: c['x'] < 0 or isinstance(c['x'], float) or c['s'] not in (1, 2),
        classes=lambda c: (('x<0,s<0' if c['x'] < 0 and c['s'] < 0 else ('x<0,s>0' if c['x'] < 0 else 'x>=0')),), required=('x<0,s<0', 'x<0,s>0', 'x>=0'),
        rule='(x, significance != 0) incl. the .MATH/.PRECISE aliases: result is a multiple of |s| adjacent to x on the documented side; positive x with negative s skipped'),
    Law('int_even_odd_sign', check_int_family, strategy=xs, quick=3000, thorough=200000,
        nontrivial=lambda c: c['x'] < 0 or isinstance(c['x'], float),
        rule='x of either sign: INT = floor, EVEN/ODD parity/at-or-beyond/within 2/sign incl. x = 0, SIGN'),
    Law('quotient_mod', check_divmod, strategy=divmod_case(), quick=3000, thorough=200000,
        nontrivial=lambda c: c['a'] < 0 or c['b'] < 0 or isinstance(c['a'], float) or isinstance(c['b'], float),
        classes=lambda c: (('zero-divisor' if c['b'] == 0 else 'nonzero'),), required=('zero-divisor',),
        rule='(a, b): integers up to 2^53 and fractions of either sign, b = 0 included (error expected): QUOTIENT = truncated exact quotient, MOD sign/size/integrality'),
    Law('big_integers', check_bigint, strategy=bigint_case(), quick=1000, thorough=60000, shards=(4, 16),
        nontrivial=lambda c: c['d'] < 0 or abs(c['s']) > 1,
        classes=lambda c: (('x<0' if c['x'] < 0 else 'x>0'), ('d<0' if c['d'] < 0 else 'd>=0')), required=('x<0', 'x>0', 'd<0', 'd>=0'),
        rule='integers of magnitude 2^52..2^70 (which a double cannot hold; and each of them times 2^1000 for SIGN, INT, EVEN, ODD, QUOTIENT, MOD) with digits -6..6, integer significances and divisors of either sign: ROUND within half a unit and an exact multiple, ROUNDUP, ROUNDDOWN, INT, EVEN, ODD, SIGN, QUOTIENT, MOD, CEILING and FLOOR '
             'equal the exact integer the definition gives (a result that went through a double is off by up to 2^17 here)'),
    Law('fact', check_fact, enumerate=enum_fact, exhaustive=True, shards=(2, 2),
        rule='n = -6..170: FACT, FACTDOUBLE exact; negative -> error'),
    Law('hex_roundtrip', check_hex, strategy=st.fixed_dictionaries({'n': st.one_of(hex_in, hex_in, hex_out), 'var': st.booleans()}), quick=3000, thorough=200000,
        nontrivial=lambda c: c['n'] < 0 or abs(c['n']) >= 2 ** 32,
        classes=lambda c: (('in-range' if LO <= c['n'] <= HI else 'out-of-range'),), required=('in-range', 'out-of-range'),
        rule='n in the 40-bit range (uniform, the 64 nearest each end, powers of 16 +-1) and out-of-range neighbours: HEX2DEC(DEC2HEX(n)) = n, DEC2HEX text = two\'s-complement hex, out of range / more than 10 digits -> error'),
    Law('base_roundtrip', check_base, strategy=base_case(), quick=3000, thorough=200000,
        nontrivial=lambda c: isinstance(c['r'], int) and c['r'] > 10 or c['n'] < 0 or not (isinstance(c['r'], int) and 2 <= c['r'] <= 36),
        key=lambda c: 'invalid-args' if not (isinstance(c['r'], int) and 2 <= c['r'] <= 36 and c['n'] >= 0) else ('radix>10' if c['r'] > 10 else 'radix<=10'),
        classes=lambda c: (('valid' if isinstance(c['r'], int) and 2 <= c['r'] <= 36 and c['n'] >= 0 else 'invalid'),), required=('valid', 'invalid'),
        rule='(n, radix[, places]): 0 <= n < 2^39 with radix 2..36 -> digits 0-9A-Z denote n positionally and DECIMAL inverts; invalid radix (-1,0,1,37,100, fractional outside 2..36) or negative n -> error; every call under the step budget'),
    Law('roman', check_roman, enumerate=enum_roman, exhaustive=True, shards=(8, 8), weight=lambda n: 5 if 1 <= n <= 3999 else 1,
        rule='all n = 1..3999 x forms 0..4 (19995 calls) + {0, 4000, -1, 4001, -3999}: every form denotes n under the general subtractive evaluator, ARABIC inverts the classic form, conciseness is monotone'),
    Law('complex', check_complex, strategy=st.fixed_dictionaries({'a': st.one_of(st.integers(-10 ** 6, 10 ** 6), st.integers(-10 ** 15, 10 ** 15), st.sampled_from([1234567, 2147483647, -2147483648, 10 ** 15 - 1])), 'b': st.one_of(st.integers(-10 ** 6, 10 ** 6), st.integers(-10 ** 15, 10 ** 15)), 'var': st.booleans()}), quick=1000, thorough=50000,
        nontrivial=lambda c: c['a'] < 0 or c['b'] < 0,
        rule='integer parts |a|,|b| up to 10^15 (exact in the doubles a complex number is made of): IMREAL/IMAGINARY(COMPLEX(a,b))'),
    Law('termination', check_term, enumerate=enum_term, key=term_key, shards=(8, 16),
        rule='25 function/arity pairs x a 26-value boundary pool (incl. inf, nan, text, blank, logicals): each call returns a well-formed record within the step budget'),
]

LEVEL_TEXT = 'Hypothesis exploration of the numeric specs against exact Fraction arithmetic with a stated tolerance (no tolerance for integers of 2^52..2^70, which are compared exactly); exhaustive over all 19995 ROMAN calls and FACT 0..170; radix round trips with an independent positional evaluator; termination decided by a deterministic line-event budget over a boundary pool.'
LEVEL_NOTE = 'Trusted: fractions.Fraction arithmetic, the positional and Roman evaluators in hx/ref. Floats (not integers) beyond 2^52 after scaling are out of range of the spec and not generated.'
TECHNIQUE = 'Hypothesis property testing against exact rational specifications + exhaustive ROMAN/FACT sweeps + round trips + deterministic step budget'
