"""C18 - lookup functions return the addressed element or an error, never another one."""
import re

from hypothesis import strategies as st

from ..env import Env, pev, lit, NoLiteral
from ..law import Law, Violation, Skip
from ..values import enc

RULE = 'C18: arrays of distinct tagged values (100*row+col, or "r2c3") up to 8x8 as literals, variables and listener-served ranges; indices -10..size+10'
ASSUMPTIONS = ['a flat list has no stated orientation: for a 1-D array addressed with both indices an error, the element at r when c = 1, or the element at c when r = 1 are accepted',
               'a lone index 0 on a 1-D array may give the whole array or an error',
               'MATCH type 1/-1 with duplicates: any position holding the extremal value is accepted',
               'MATCH wildcards: * and ? only; every other character (incl. [ ] ! -) is literal; ~ is not generated',
               'arrays are homogeneous (numbers or text) and lookup values are of the same kind',
               'MATCH without regard to case: which letters beyond the simple lower-case mapping count as the same (sharp s and SS, the small sigmas, ligatures) is not stated; cases are kept only when the literal '
               'letters of the lookup text fold alike under lower() and casefold() and, without wildcards, both foldings select the same item (skip class case-folding-not-stated); a ? stands for one character']


def supply(arr, how, env_kw, name='v_arr', rng='B2:D9'):
    """-> formula fragment naming the array"""
    if how == 'lit':
        try:
            return lit(arr)
        except NoLiteral:
            how = 'var'
    if how == 'var':
        env_kw.setdefault('vars', {})[name] = arr
        return name
    env_kw.setdefault('ranges', {})[rng] = arr
    return rng


def outcome(f, env_kw):
    return Env(**env_kw).parse(f)


# ---------------------------------------------------------------- CHOOSE

def check_choose(case):
    vals, i = case['vals'], case['i']
    kw = {'vars': {'v_idx': i}}
    names = []
    for k, v in enumerate(vals):
        kw['vars']['v_%s' % 'abcdefghij'[k]] = v
        # a blank choice arrives as a variable holding None, as NULL, or as an omitted slot
        names.append('v_%s' % 'abcdefghij'[k] if v is not None else ['v_%s' % 'abcdefghij'[k], 'NULL', ''][(k + i) % 3])
    if names and names[-1] == '':
        names[-1] = 'NULL'
    I = 'v_idx' if case['var'] else lit(i)
    if len(vals) >= 2 and 1 <= i <= len(vals) and (i + len(vals)) % 3 == 0:
        # an error value sitting in a choice that is not the selected one does not matter
        j = (i % len(vals))          # zero-based position of another choice
        if j != i - 1:
            names[j] = ['(1/0)', 'NA()', 'MATCH(9,{1,2,3},0)', '("q"+1)'][(i + j) % 4]
    f = 'CHOOSE(%s,%s)' % (I, ','.join(names))
    r = outcome(f, kw)
    if 1 <= i <= len(vals):
        if r['error'] is not None or r['result'] != vals[i - 1] or type(r['result']) != type(vals[i - 1]):
            raise Violation('CHOOSE(%d, %r) -> %r' % (i, vals, r['error'] or r['result']), r['error'] or enc(r['result']), enc(vals[i - 1]))
    elif r['error'] is None:
        raise Violation('CHOOSE(%d, %d values) -> %r, expected an error' % (i, len(vals), r['result']), enc(r['result']), 'error')


def enum_choose_long(tier, shard, nshards):
    k = 0
    for n in (11, 30, 100, 200, 253, 254):
        for i in (1, 2, n // 2, n - 1, n, n + 1):
            for sep in (',', ';'):
                k += 1
                if k % nshards == shard:
                    yield [n, i, sep]


def check_choose_long(case):
    n, i, sep = case
    f = 'CHOOSE(%d%s%s)' % (i, sep, sep.join(str(1000 + k) for k in range(1, n + 1)))
    r = outcome(f, {})
    if i <= n:
        if r['error'] is not None or r['result'] != 1000 + i:
            raise Violation('CHOOSE(%d, 1001..%d) (%d values, separator %r) -> %r, expected %d' % (i, 1000 + n, n, sep, r['error'] or r['result'], 1000 + i), r['error'] or enc(r['result']), 1000 + i)
    elif r['error'] is None:
        raise Violation('CHOOSE(%d, %d values) -> %r, expected an error' % (i, n, r['result']), enc(r['result']), 'error')


# ---------------------------------------------------------------- INDEX

@st.composite
def index_case(draw):
    text = draw(st.booleans())
    two_d = draw(st.booleans())
    rows = draw(st.integers(1, 8)) if two_d else 1
    cols = draw(st.integers(1, 8))
    def tag(r, c):
        return ('r%dc%d' % (r, c)) if text else 100 * r + c
    if two_d:
        arr = [[tag(r, c) for c in range(1, cols + 1)] for r in range(1, rows + 1)]
    else:
        arr = [tag(1, c) for c in range(1, cols + 1)]
    idx = st.one_of(st.integers(-10, 18), st.integers(-2, 9), st.none(), st.just(0))
    r = draw(idx)
    c = draw(idx)
    if not two_d and draw(st.booleans()):
        c = 'omit'
    how = draw(st.sampled_from(['var', 'range', 'lit']))
    return {'arr': arr, 'r': r, 'c': c, 'how': how, 'ivar': draw(st.booleans()), 'sep': draw(st.sampled_from([',', ',', ';', '\\']))}


def check_index(case):
    arr, r, c = case['arr'], case['r'], case['c']
    two_d = isinstance(arr[0], list)
    kw = {'vars': {}}
    A = supply(arr, case['how'], kw)
    def spell(v, name):
        if v is None:
            return ''
        if case['ivar']:
            kw['vars'][name] = v
            return name
        return lit(v)
    if c == 'omit':
        if r is None:
            raise Skip('no-index')
        f = 'INDEX(%s,%s)' % (A, spell(r, 'v_r'))
    else:
        f = 'INDEX(%s,%s,%s)' % (A, spell(r, 'v_r'), spell(c, 'v_c'))
    sep = case.get('sep', ',')
    if sep != ',' and not (case['how'] == 'lit'):
        # the other two list separators (array literals keep their own commas, so only for arrays given by name or reference)
        f = f.replace(',', sep)
    res = outcome(f, kw)
    g = res['result']
    desc = '%s with array %r r=%r c=%r' % (f, arr, r, c)
    accepted = []           # list of acceptable values; 'error' for an error outcome
    if two_d:
        nr, nc = len(arr), len(arr[0])
        rz = r in (None, 0)
        cz = c in (None, 0)
        if rz and cz:
            raise Skip('both-indices-zero')
        if r is not None and (r < 0 or r > nr) or c is not None and (c < 0 or c > nc):
            accepted = ['error']
        elif rz:
            accepted = [[row[c - 1] for row in arr]]
        elif cz:
            accepted = [arr[r - 1]]
        else:
            accepted = [arr[r - 1][c - 1]]
    else:
        n = len(arr)
        if c == 'omit':
            if r == 0:
                accepted = ['error', arr]
            elif 1 <= r <= n:
                accepted = [arr[r - 1]]
            else:
                accepted = ['error']
        else:
            rz = r in (None, 0)
            cz = c in (None, 0)
            if rz and cz:
                raise Skip('both-indices-zero')
            if rz:
                accepted = ['error', arr[c - 1]] if 1 <= c <= n else ['error']
                if c == 1:
                    accepted.append(arr)
            elif cz:
                accepted = ['error', arr[r - 1]] if 1 <= r <= n else ['error']
                if r == 1:
                    accepted.append(arr)
            else:
                accepted = ['error']
                if c == 1 and 1 <= r <= n:
                    accepted.append(arr[r - 1])
                if r == 1 and 1 <= c <= n:
                    accepted.append(arr[c - 1])
    if res['error'] is not None:
        if 'error' not in accepted:
            raise Violation('%s -> %s, expected %r' % (desc, res['error'], accepted), res['error'], enc(accepted))
        return
    if not any(a != 'error' and type(a) == type(g) and a == g for a in accepted):
        raise Violation('%s -> %r, expected %s' % (desc, g, ' or '.join(repr(a) for a in accepted)), enc(g), enc(accepted))


def index_key(case):
    r, c = case['r'], case['c']
    if (isinstance(r, int) and r < 0) or (isinstance(c, int) and c < 0):
        return 'negative-index'
    if r == 0 or c == 0:
        return 'zero-index'
    return ''


def index_classes(case):
    arr = case['arr']
    out = ['2d' if isinstance(arr[0], list) else '1d', 'how:' + case['how']]
    k = index_key(case)
    if k:
        out.append(k)
    if isinstance(arr[0], list):
        r, c = case['r'], case['c']
        if isinstance(r, int) and isinstance(c, int) and 1 <= r <= len(arr) and 1 <= c <= len(arr[0]):
            out.append('inside')
            if r != c:
                out.append('inside-offdiag')
        if (isinstance(r, int) and r > len(arr)) or (isinstance(c, int) and c > len(arr[0])):
            out.append('beyond')
    return out


# ---------------------------------------------------------------- MATCH

def wild_to_re(p):
    out = []
    for ch in p:
        if ch == '*':
            out.append('.*')
        elif ch == '?':
            out.append('.')
        else:
            out.append(re.escape(ch))
    return re.compile('(?s)\\A' + ''.join(out) + '\\Z')


WORDS_FOLD = st.text(st.sampled_from('aAsSe\u00df\ufb01fi\u03c3\u03c2'), min_size=1, max_size=5)     # letters whose case folding is another letter or two letters: one ? stands for one of them
WORDS = st.text(st.sampled_from('abAB[]!-.x1 ~\n'), min_size=1, max_size=5)       # (a tilde is a character like any other: only * and ? are wildcards)


@st.composite
def match_case(draw):
    kind = draw(st.sampled_from(['num0', 'num1', 'num-1', 'text0', 'text0w']))
    how = draw(st.sampled_from(['var', 'range', 'lit']))
    if kind.startswith('num'):
        base = st.one_of(st.integers(-20, 20), st.integers(-20, 20).map(lambda v: v / 2.0), st.integers(-10 ** 6, 10 ** 6))
        if draw(st.integers(0, 4)) == 0:
            # distinct numbers that are very close in relative terms (consecutive large integers, neighbouring doubles)
            c = draw(st.sampled_from([1700000000, 9007199254740000, 123456789012, 2.0, 1e9, 0.1, -5000000000]))
            if isinstance(c, int):
                base = st.integers(c - 3, c + 3)
            else:
                base = st.integers(-3, 3).map(lambda k, c=c: c * (1 + k * 2e-11))
        arr = draw(st.lists(base, min_size=1, max_size=8))
        if kind == 'num1':
            arr = sorted(arr)
        elif kind == 'num-1':
            arr = sorted(arr, reverse=True)
        x = draw(st.one_of(st.sampled_from(arr), base, st.sampled_from([min(arr) - 1, max(arr) + 1])))
        if draw(st.integers(0, 3)) == 0 and float(x).is_integer() and abs(x) < 2 ** 53:
            x = float(x) if isinstance(x, int) else int(x)       # 30 looked up among 10.0, 20.0, 30.0 (or 60/2 among integers): the same number
        return {'kind': kind, 'arr': arr, 'x': x, 'how': how, 'deftype': draw(st.booleans())}
    words = WORDS_FOLD if draw(st.integers(0, 4)) == 0 else WORDS
    arr = draw(st.lists(words, min_size=1, max_size=8))
    if kind == 'text0':
        x = draw(st.one_of(st.sampled_from(arr), st.sampled_from(arr).map(lambda s: s.swapcase()), words))
        x = x.replace('*', '').replace('?', '') or 'a'
    else:
        w = draw(st.sampled_from(arr))
        i = draw(st.integers(0, len(w)))
        j = draw(st.integers(i, len(w)))
        # near misses first, so that a pattern matching too much or too little picks the wrong position
        near = [w[:i] + w[i + 1:], w[:i] + 'x' + w[i:], w + 'b', w[1:]]
        arr = [n for n in draw(st.lists(st.sampled_from(near), max_size=3)) if n] + arr
        x = draw(st.sampled_from([w[:i] + '*' + w[j:], w[:i] + '?' * (j - i) + w[j:], '*' + w[j:], w[:i] + '*', '?' + w[1:], draw(words) + '*',
                                  w[:i] + '?' + w[i:], w + '?', '?' + w, w[:i] + '?' + w[i + 1:]]))
        if draw(st.booleans()):
            x = x.swapcase()
    return {'kind': kind, 'arr': arr, 'x': x, 'how': how, 'deftype': False}


def check_match(case):
    kind, arr, x = case['kind'], case['arr'], case['x']
    kw = {'vars': {'v_x': x}}
    host = list(arr)          # the list object handed to the library; expectations are read from `arr`, which the library never sees
    A = supply(host, case['how'], kw, rng='C3:C12')
    X = 'v_x'
    if case['how'] == 'lit':
        try:
            X = lit(x)
        except NoLiteral:
            pass
    t = {'num0': 0, 'num1': 1, 'num-1': -1, 'text0': 0, 'text0w': 0}[kind]
    if t == 1 and case['deftype']:
        f = 'MATCH(%s,%s)' % (X, A)
    else:
        f = 'MATCH(%s,%s,%s)' % (X, A, lit(t))
    if kind.startswith('text') and len(x) % 2 == 0:
        # the same process has just used the same text as a criterion (criteria compare with the case of the letters, MATCH without: whatever the two share must not remember which)
        outcome('COUNTIF(%s,%s)' % (A, X), kw)
    res = outcome(f, kw)
    g = res['result']
    desc = 'MATCH(%r, %r, %d)' % (x, arr, t)
    if kind == 'num0':
        pos = [i + 1 for i, a in enumerate(arr) if a == x][:1]
        accepted = pos
    elif kind == 'num1':
        le = [a for a in arr if a <= x]
        accepted = [i + 1 for i, a in enumerate(arr) if le and a == max(le)]
    elif kind == 'num-1':
        ge = [a for a in arr if a >= x]
        accepted = [i + 1 for i, a in enumerate(arr) if ge and a == min(ge)]
    else:
        rx = wild_to_re(x.lower())
        accepted = [i + 1 for i, a in enumerate(arr) if rx.match(a.lower())][:1]
        # which letters are "the same letter in the other case" beyond the simple mapping (sharp s and SS, the two small sigmas) is not stated: a case is kept
        # only when the literal letters of x have one folding and the simple and the full folding select the same item
        lit_x = x.replace('*', '').replace('?', '')
        rxf = wild_to_re(''.join(c if c in '*?' else c.casefold() for c in x)) if len(lit_x.casefold()) == len(lit_x) else None
        if lit_x.casefold() != lit_x.lower() or rxf is None or (kind == 'text0' and [i + 1 for i, a in enumerate(arr) if rxf.match(a.casefold())][:1] != accepted):
            raise Skip('case-folding-not-stated')
    if not accepted:
        if res['error'] != '#N/A':
            raise Violation('%s -> %r, expected #N/A' % (desc, res['error'] or g), res['error'] or enc(g), '#N/A')
        return
    if res['error'] is not None or isinstance(g, bool) or g not in accepted:
        raise Violation('%s -> %r, expected position %s' % (desc, res['error'] or g, ' or '.join(map(str, accepted))), res['error'] or enc(g), accepted)
    if t == 0:
        f2 = 'INDEX(%s,MATCH(%s,%s,0))' % (A, X, A)
        r2 = outcome(f2, kw)
        want = arr[accepted[0] - 1]
        if r2['error'] is not None or r2['result'] != want:
            raise Violation('INDEX(arr, MATCH(%r, arr, 0)) with arr=%r -> %r, expected %r' % (x, arr, r2['error'] or r2['result'], want), r2['error'] or enc(r2['result']), enc(want))
    if host != arr or any(type(a) != type(b) for a, b in zip(host, arr)):
        raise Violation('%s changed the list the host handed over: %r is now %r' % (desc, arr, host), enc(host), enc(arr))


def match_key(case):
    if case['kind'].startswith('text') and any(ch in case['x'] or any(ch in a for a in case['arr']) for ch in '[]!'):
        return 'bracket-characters'
    return case['kind']


def match_classes(case):
    out = [case['kind'], 'how:' + case['how']]
    arr = case['arr']
    if len(set(arr)) < len(arr):
        out.append('duplicates')
    if case['kind'].startswith('num'):
        out.append('present' if case['x'] in arr else 'absent')
    return out


# ---------------------------------------------------------------- a host list that changes between evaluations

edit_s = st.one_of(st.tuples(st.just('insert'), st.integers(0, 8), st.integers(1, 60)), st.tuples(st.just('set'), st.integers(0, 8), st.integers(1, 60)), st.tuples(st.just('sort')), st.tuples(st.just('reverse')),
                   st.tuples(st.just('pop'), st.integers(0, 8)), st.tuples(st.just('refill'), st.lists(st.integers(1, 60), min_size=1, max_size=6)), st.tuples(st.just('lookup'), st.integers(1, 60))).map(list)
hist_case = st.fixed_dictionaries({'start': st.lists(st.integers(1, 60), min_size=1, max_size=6), 'ops': st.lists(edit_s, min_size=2, max_size=10), 'two': st.booleans()})


def check_host_history(case):
    from ..env import hot
    prices = list(case['start'])
    P = hot().Parser()
    P.set_variable('v_prices', prices)
    Q = hot().Parser()
    Q.set_variable('v_prices', prices)
    for step, op in enumerate(case['ops']):
        k = op[0]
        if k == 'insert':
            prices.insert(min(op[1], len(prices)), op[2])
        elif k == 'set' and prices:
            prices[op[1] % len(prices)] = op[2]
        elif k == 'sort':
            prices.sort()
        elif k == 'reverse':
            prices.reverse()
        elif k == 'pop' and len(prices) > 1:
            prices.pop(op[1] % len(prices))
        elif k == 'refill':
            del prices[:]
            prices.extend(op[1])
        elif k == 'lookup':
            x = op[1]
            X = Q if (case['two'] and step % 2) else P
            r = X.parse('MATCH(%d,v_prices,0)' % x)
            pos = [i + 1 for i, a in enumerate(prices) if a == x][:1]
            d = 'host list is now %r (after %r): ' % (prices, case['ops'][:step])
            if pos:
                if r['error'] is not None or r['result'] != pos[0]:
                    raise Violation(d + 'MATCH(%d, list, 0) -> %r, expected %d' % (x, r['error'] or r['result'], pos[0]), r['error'] or enc(r['result']), pos[0])
                r2 = X.parse('INDEX(v_prices,MATCH(%d,v_prices,0))' % x)
                if r2['error'] is not None or r2['result'] != x:
                    raise Violation(d + 'INDEX(list, MATCH(%d, list, 0)) -> %r' % (x, r2['error'] or r2['result']), r2['error'] or enc(r2['result']), x)
            elif r['error'] != '#N/A':
                raise Violation(d + 'MATCH(%d, list, 0) -> %r, expected #N/A' % (x, r['error'] or r['result']), r['error'] or enc(r['result']), '#N/A')
            for i in range(1, len(prices) + 1):
                ri = X.parse('INDEX(v_prices,%d)' % i)
                if ri['error'] is not None or ri['result'] != prices[i - 1]:
                    raise Violation(d + 'INDEX(list,%d) -> %r' % (i, ri['error'] or ri['result']), ri['error'] or enc(ri['result']), prices[i - 1])


vals_s = st.lists(st.one_of(st.integers(-50, 50), st.text(st.sampled_from('abc'), max_size=3), st.booleans(), st.just(0.5), st.none(), st.none()), min_size=1, max_size=10)

LAWS = [
    Law('choose', check_choose, quick=1500, thorough=60000, shards=(4, 8),
        strategy=st.fixed_dictionaries({'vals': vals_s, 'i': st.integers(-3, 13), 'var': st.booleans()}),
        nontrivial=lambda c: c['i'] != 1,
        classes=lambda c: (('inside' if 1 <= c['i'] <= len(c['vals']) else 'outside'), ('blank-choice' if any(v is None for v in c['vals']) else 'no-blank')), required=('inside', 'outside', 'blank-choice'),
        rule='CHOOSE(i, 1-10 values of mixed types incl. blanks given as blank variables, NULL or omitted slots) with i in -3..13: v_i inside 1..n (a blank when v_i is blank), an error outside'),
    Law('choose_long', check_choose_long, enumerate=enum_choose_long, exhaustive=True, shards=(4, 4),
        rule='CHOOSE with 11, 30, 100, 200, 253 and 254 values (the spreadsheet limit), index 1, 2, n/2, n-1, n and n+1, both list separators: v_i inside, an error at n+1'),
    Law('index', check_index, strategy=index_case(), key=index_key, classes=index_classes, quick=5000, thorough=300000, shards=(8, 16),
        required=('1d', '2d', 'negative-index', 'zero-index', 'inside-offdiag', 'beyond', 'how:lit', 'how:var', 'how:range'),
        nontrivial=lambda c: index_key(c) != '' or 'beyond' in index_classes(c) or 'inside-offdiag' in index_classes(c),
        rule='arrays of distinct tagged values (1-D length 1-8, 2-D up to 8x8; literal / variable / range), row and column index each in -10..18, 0 or omitted: '
             'the addressed element, whole row or whole column inside the array; an error - never another element - outside; non-trivial = index outside 1..size, zero, or an off-diagonal cell'),
    Law('match', check_match, strategy=match_case(), key=match_key, classes=match_classes, quick=5000, thorough=300000, shards=(8, 16),
        required=('num0', 'num1', 'num-1', 'text0', 'text0w', 'duplicates', 'present', 'absent'),
        nontrivial=lambda c: len(c['arr']) >= 2,
        rule='MATCH type 0 on unsorted numbers and on text (case-insensitive, * and ? wildcards, other punctuation literal), type 1 on ascending and type -1 on descending numeric arrays with duplicates, '
             'lookup value present / absent / below / above all items; INDEX(arr, MATCH(x, arr, 0)) returns the matched item'),
    Law('host_list_history', check_host_history, strategy=hist_case, quick=1000, thorough=40000, shards=(4, 16), key=lambda c: 'host-list-history',
        nontrivial=lambda c: sum(1 for o in c['ops'] if o[0] == 'lookup') >= 2 and any(o[0] != 'lookup' for o in c['ops']),
        classes=lambda c: (('edit-between-lookups' if any(c['ops'][i][0] == 'lookup' and any(o[0] != 'lookup' for o in c['ops'][i + 1:]) and any(o[0] == 'lookup' for o in c['ops'][i + 1:]) for i in range(len(c['ops']))) else 'other'),),
        required=('edit-between-lookups',),
        rule='a host list bound as a variable on two parsers, 2-10 operations - edit the list in place (insert, assign, sort, reverse, pop, clear and refill) or look a value up: every MATCH(x, list, 0), INDEX(list, MATCH(..)) and INDEX(list, i) answers from the list as it is now'),
]

LEVEL_TEXT = 'CHOOSE up to the 254-value limit by enumeration; Hypothesis exploration with arrays of distinct tagged values so that "some other element" is detectable, over all index positions from -10 to size+10 and all three ways of supplying an array; MATCH against a reference scan written from the statement.'
LEVEL_NOTE = 'Trusted: the reference addressing/scan in hx/checks/c18.py. Orientation of flat lists is left open as in the statement (several outcomes accepted).'
TECHNIQUE = 'Hypothesis property testing with tagged arrays against a reference model; INDEX/MATCH round trip'
