"""C20 - event emitter: ordered delivery, exact unsubscription, once means once.

Model-based stateful testing: a generated history of on/once/off/emit
operations (with scripted callbacks that themselves subscribe, unsubscribe and
emit during delivery) drives the real Emitter and a reference model in
lockstep; after every top-level operation the call logs and the listener
tables must agree.
"""
import collections
import types

from hypothesis import strategies as st

from .. import snapshot
from ..law import Law, Violation

RULE = 'C20: histories of 1-40 on/once/off/emit operations over 3 names and 5 scripted callbacks, real emitter vs reference model in lockstep'
ASSUMPTIONS = ['callbacks do not raise (the statement does not define delivery after a raising listener)',
               'a once-listener reached by two overlapping deliveries of its name is called by the first delivery that reaches it only',
               'nested emits are cut off identically on both sides at depth 3 / 24 nested emits per top-level operation, to keep re-emission finite']

NAMES = ['na', 'nb', 'nc']
NAMES0 = ['', 'nb', 'nc']        # the empty string is an event name like any other (impl 'emitter0')


NAMEST = ['t:cell|A1', 'cell', 'A1']     # impl 'emittert': the first name stands for the tuple ('cell', 'A1') - any hashable value names an event, and that one is not the two names it is made of


NAMESB = ['b:nb', 'nb', 'nc']            # impl 'emitterb': the first name stands for the bytes object b'nb', which is not the text 'nb'


def names_of(impl):
    return PNAMES if impl == 'parser' else (NAMES0 if impl == 'emitter0' else (NAMEST if impl == 'emittert' else (NAMESB if impl == 'emitterb' else NAMES)))


def event_key(name):
    if name.startswith('b:'):
        return name[2:].encode('ascii')
    return tuple(name[2:].split('|')) if name.startswith('t:') else name


def bound_context(pairs):
    """The context as the host hands it over: nothing, a dict, or (by the values it holds) another kind of mapping."""
    if not pairs:
        return None
    d = dict(pairs)
    k = sum(v for v in d.values() if isinstance(v, int)) % 4
    if k == 1:
        return types.MappingProxyType(d)
    if k == 3:
        return collections.ChainMap(d)
    return d
PNAMES = ['callCellValue', 'callRangeValue', 'callVariable', 'callFunction']
NCB = 5
MAX_DEPTH = 3
MAX_NESTED = 24


class Entry(object):
    __slots__ = ('cb', 'ctx', 'once', 'fired')

    def __init__(self, cb, ctx, once):
        self.cb, self.ctx, self.once, self.fired = cb, ctx, once, False


class ModelEmitter(object):
    """40-line reference written from the statement."""

    def __init__(self):
        self.e = {}

    def on(self, name, cb, ctx=None):
        self.e.setdefault(name, []).append(Entry(cb, dict(ctx or {}), False))

    def once(self, name, cb, ctx=None):
        self.e.setdefault(name, []).append(Entry(cb, dict(ctx or {}), True))

    def off(self, name, cb=None):
        if cb is None:
            self.e[name] = []
        else:
            self.e[name] = [x for x in self.e.get(name, []) if x.cb != cb]      # "that callback": equality, so a re-fetched bound method counts

    def emit(self, name, *args):
        for ent in list(self.e.get(name, [])):       # subscriptions changed during delivery count from the next emit
            if ent.once:
                if ent.fired:
                    continue
                ent.fired = True
                self.e[name] = [x for x in self.e.get(name, []) if x is not ent]
            ent.cb(*args, **ent.ctx)

    def table(self, name, ident):
        return [(ident(x.cb), sorted(x.ctx.items()), x.once) for x in self.e.get(event_key(name), [])]


class Driver(object):
    def __init__(self, em, scripts, stats=None):
        self.em = em
        self.scripts = scripts
        self.log = []
        self.count = [0] * NCB
        self.depth = 0
        self.nested = 0
        self.stats = stats if stats is not None else {}
        closures = [self._mk(i) for i in range(NCB)]
        drv = self

        class Host(object):
            # callbacks 3 and 4 are bound methods: every attribute access builds a new, equal, method object
            def m3(_host, *args, **ctx):
                return closures[3](*args, **ctx)

            def m4(_host, *args, **ctx):
                return closures[4](*args, **ctx)
        self.host = Host()
        self._closures = closures

        class CallableObject(object):
            def __call__(_obj, *args, **ctx):
                return closures[0](*args, **ctx)
        import functools
        self._obj0 = CallableObject()
        self._partial2 = functools.partial(closures[2])
        self.current = []
        self.emitted = []

    @property
    def cbs(self):
        # callback 0 is a callable object (no __name__), 2 a functools.partial, 3 and 4 bound methods fetched anew each time; callback 1 returns False
        return [self._obj0, self._closures[1], self._partial2, self.host.m3, self.host.m4]

    def ident(self, cb):
        for i, c in enumerate(self.cbs):
            if c == cb:
                return i
        return '?'

    def show(self, a):
        # what a listener was handed: plain values as they are, anything else by its class and by whether it is the very object that was emitted
        if isinstance(a, (int, str)):
            return a
        return '<%s%s>' % (type(a).__name__, ', the emitted object' if any(a is e for e in self.emitted) else ', another object')

    def _unused(self):
        self.current = []

    def _mk(self, i):
        def cb(*args, **ctx):
            self.log.append((i, [self.show(a) for a in args], sorted(ctx.items())))
            n = self.count[i]
            self.count[i] += 1
            script = self.scripts[i] if i < len(self.scripts) else []
            if n < len(script):
                for act in script[n]:
                    self.do(act, nested=True)
            return False if i == 1 else (0 if i == 2 else None)      # what a listener returns is nobody's business
        return cb

    def do(self, act, nested=False):
        kind = act[0]
        if nested:
            self.stats['during-delivery:' + kind] = self.stats.get('during-delivery:' + kind, 0) + 1
        if kind == 'on':
            self.em.on(event_key(act[1]), self.cbs[act[2]], bound_context(act[3]))
        elif kind == 'once':
            self.em.once(event_key(act[1]), self.cbs[act[2]], bound_context(act[3]))
        elif kind == 'on_many':
            for _ in range(act[3]):
                self.em.on(event_key(act[1]), self.cbs[act[2]], None)
        elif kind == 'off':
            self.em.off(event_key(act[1]))
        elif kind == 'offcb':
            self.em.off(event_key(act[1]), self.cbs[act[2]])
        elif kind == 'emit':
            if nested:
                if self.depth >= MAX_DEPTH or self.nested >= MAX_NESTED:
                    return
                self.nested += 1
                if act[1] in self.current:
                    self.stats['nested-same-name'] = self.stats.get('nested-same-name', 0) + 1
            self.depth += 1
            self.current.append(act[1])
            args = []
            for a in act[2]:
                if a == 'it':
                    a = iter([1, 2, 3])          # an argument that can be walked only once: it reaches every listener as the object it is
                    self.emitted.append(a)
                args.append(a)
            try:
                self.em.emit(event_key(act[1]), act[1], *args)
            finally:
                self.current.pop()
                self.depth -= 1
        else:
            raise ValueError(kind)

    def top(self, act):
        self.nested = 0
        self.do(act)


def real_table(em, name, ident):
    out = []
    for l in list(em._e.get(event_key(name), [])):
        fn = l.fn
        once = hasattr(fn, '_')
        base = fn._ if once else fn
        out.append((ident(base), sorted(l.ctx.items()), once))
    return out


def make_real(impl):
    hot = snapshot.load()
    if impl == 'parser':
        return hot.Parser()
    from hotxlfp.tinyemitter import Emitter
    return Emitter()


def check(case):
    scripts, ops = case['scripts'], case['ops']
    real = Driver(make_real(case['impl']), scripts)
    model = Driver(ModelEmitter(), scripts)
    names = names_of(case['impl'])
    for step, act in enumerate(ops):
        try:
            real.top(act)
        except RecursionError:
            raise
        except Exception as e:
            raise Violation('step %d %r: the emitter raised %s: %s' % (step, act, type(e).__name__, e), repr(e), None)
        model.top(act)
        if real.log != model.log:
            n = 0
            while n < min(len(real.log), len(model.log)) and real.log[n] == model.log[n]:
                n += 1
            raise Violation('step %d %r: delivery log diverges from the model at call %d' % (step, act, n),
                            real.log[n:n + 4], model.log[n:n + 4])
        for name in names:
            rt = real_table(real.em, name, real.ident)
            mt = model.em.table(name, model.ident)
            if rt != mt:
                raise Violation('step %d %r: listeners of %r differ from the model' % (step, act, name), repr(rt), repr(mt))


def model_stats(case):
    stats = {}
    d = Driver(ModelEmitter(), case['scripts'], stats)
    kinds = set()
    dup = False
    for act in case['ops']:
        kinds.add(act[0])
        d.top(act)
        for name, lst in d.em.e.items():
            ids = [(x.cb, x.once) for x in lst]
            if len(ids) != len(set(x.cb for x in lst)):
                dup = True
            if len(lst) >= 2:
                stats['two-listeners'] = 1
    if dup:
        stats['duplicate-subscription'] = 1
    stats['calls'] = len(d.log)
    for k in kinds:
        stats['op:' + k] = 1
    return stats


def classes(case):
    s = model_stats(case)
    out = [k for k in s if k != 'calls']
    if s.get('calls', 0) >= 3:
        out.append('calls>=3')
    out.append('impl:' + case['impl'])
    return out


def nontrivial(case):
    s = model_stats(case)
    return bool(s.get('two-listeners')) and (('op:off' in s) or ('op:offcb' in s) or ('op:once' in s) or ('during-delivery:once' in s)) and s.get('calls', 0) >= 2


def key(case):
    s = model_stats(case)
    if s.get('nested-same-name'):
        return 'nested-same-name-emit'
    if any(k.startswith('during-delivery:') for k in s):
        return 'mutation-during-delivery'
    return 'plain'


def case_strategy():
    def build(impl):
        nm = names_of(impl)
        names = st.sampled_from([nm[0], nm[0], nm[0], nm[1], nm[1], nm[2]])
        cbid = st.integers(0, NCB - 1)
        ctx = st.one_of(st.just([]), st.just([]), st.lists(st.tuples(st.sampled_from(['kx', 'ky', 'self', 'name', 'callback', 'args']), st.integers(0, 3)), max_size=2, unique_by=lambda t: t[0]).map(lambda l: [list(t) for t in l]))
        args = st.lists(st.one_of(st.integers(0, 9), st.integers(0, 9), st.integers(0, 9), st.just('it')), max_size=2)
        sub = st.one_of(st.tuples(st.just('on'), names, cbid, ctx), st.tuples(st.just('once'), names, cbid, ctx)).map(list)
        unsub = st.one_of(st.tuples(st.just('off'), names), st.tuples(st.just('offcb'), names, cbid), st.tuples(st.just('offcb'), names, cbid)).map(list)
        emit = st.tuples(st.just('emit'), names, args).map(list)
        act = st.one_of(sub, sub, unsub, emit, emit, emit)
        script = st.lists(st.lists(act, min_size=1, max_size=3), max_size=3)
        scripts = st.lists(script, min_size=NCB, max_size=NCB)
        rnd = st.tuples(st.lists(act, max_size=3), emit).map(lambda t: t[0] + [t[1]])
        many = st.one_of(st.just([]), st.just([]), st.just([]), st.just([]), st.tuples(st.just('on_many'), names, cbid, st.integers(31, 40)).map(lambda t: [list(t)]))     # a name with dozens of listeners
        ops = st.tuples(st.lists(sub, min_size=2, max_size=6), many, st.lists(rnd, min_size=1, max_size=8)).map(
            lambda t: t[0] + t[1] + [a for r in t[2] for a in r])
        return st.fixed_dictionaries({'impl': st.just(impl), 'scripts': scripts, 'ops': ops})
    return st.sampled_from(['emitter', 'emitter', 'emitter0', 'emittert', 'emitterb', 'parser', 'parser']).flatmap(build)


LAWS = [
    Law('lockstep', check, strategy=case_strategy(), nontrivial=nontrivial, key=key, classes=classes,
        required=('nested-same-name', 'during-delivery:on', 'during-delivery:off', 'during-delivery:offcb', 'during-delivery:once',
                  'duplicate-subscription', 'op:once', 'op:offcb', 'impl:parser', 'impl:emitter', 'impl:emitter0', 'impl:emittert', 'impl:emitterb'),
        quick=4000, thorough=160000, shards=(8, 16),
        rule='history = 3-38 top-level operations (2-6 subscriptions, then 1-8 rounds of up to 3 arbitrary operations followed by an emit) (on/once with or without context, off(name), off(name,callback), emit(name,args)) over 3 names (in one variant of the emitter the first name is a tuple, in another the empty string, in a third the bytes object spelt like the second name; a context is a dict, a mappingproxy or a ChainMap) x 5 callbacks (two of them bound methods of a host object, fetched anew for every on/once/off, so equal but not identical); '
             'each callback carries a generated script of up to 3x3 operations it performs when invoked; oracle = reference emitter run in lockstep, '
             'compared after every operation on the delivery log (callback, arguments incl. the emitted name, context; order included) and on the listener table; '
             'non-trivial = at least two listeners on one name, at least one off/once, at least two deliveries'),
]

LEVEL_TEXT = 'Model-based exploration: generated operation histories with re-entrant scripted callbacks, real emitter and a reference model compared after every step (delivery log and listener table). Finds order, snapshot, once and unsubscription defects that need a multi-step history; does not prove absence.'
LEVEL_NOTE = 'Trusted: the 40-line reference emitter in hx/checks/c20.py written from the statement. Raising listeners are outside the statement and not generated.'
TECHNIQUE = 'model-based stateful property testing (Hypothesis-generated operation histories vs reference emitter)'
