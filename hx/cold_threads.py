"""Child process of C03 cold_start_threads: a brand-new interpreter whose very first evaluations run in several threads at once.

usage: python cold_threads.py <snapshot-dir>   (JSON on stdin: {"formulas": [...], "threads": n, "import_in_thread": bool}; JSON on stdout)
Stands alone on purpose (imports nothing from hx).  The library is imported, parsers are built and the first evaluations are made by the threads
themselves, released together by a barrier; afterwards the main thread evaluates the same formulas on new parsers (by then everything is loaded).
"""
import json
import sys
import threading


def show(r):
    g = r['result']
    return '%s:%r|%s' % (type(g).__name__, g, r['error'])


def main():
    sys.path.insert(0, sys.argv[1])
    sys.dont_write_bytecode = True
    job = json.load(sys.stdin)
    n = job['threads']
    formulas = job['formulas']
    if not job.get('import_in_thread'):
        import hotxlfp  # noqa
    barrier = threading.Barrier(n)
    out = [None] * n
    errs = []

    def listen(P):
        # cells and ranges are answered from the coordinates the listener is handed
        P.on('callCellValue', lambda cell, setter: setter(cell.row.index * 100000 + cell.col.index))
        P.on('callRangeValue', lambda a, b, setter: setter([a.row.index, a.col.index, b.row.index, b.col.index]))
        return P

    def body(i):
        try:
            if job.get('import_in_thread'):
                barrier.wait()
                import hotxlfp
                P = listen(hotxlfp.Parser())
            else:
                import hotxlfp
                P = listen(hotxlfp.Parser())
                barrier.wait()
            out[i] = [show(P.parse(f)) for f in formulas]
        except BaseException as e:
            errs.append('%s: %s' % (type(e).__name__, e))
    ts = [threading.Thread(target=body, args=(i,)) for i in range(n)]
    for t in ts:
        t.start()
    for t in ts:
        t.join(60)
    import hotxlfp
    solo = [show(listen(hotxlfp.Parser()).parse(f)) for f in formulas]
    json.dump({'threads': out, 'solo': solo, 'errors': errs, 'alive': [t.is_alive() for t in ts]}, sys.stdout)


if __name__ == '__main__':
    main()
