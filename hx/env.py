"""Building parsers with bindings, evaluating formulas, spelling values as literals."""
import datetime
import decimal
import io
import contextlib
import os
import sys

from . import snapshot
from .values import dec, is_err


def hot():
    return snapshot.load()


def errors():
    snapshot.load()
    from hotxlfp.formulas import error
    return error


def norm_label(label):
    return label.replace('$', '').upper()


def _part_labels(cell):
    # the row and column descriptors carry the spelling of their own part of the label (upper-case letters, digits)
    return (getattr(cell.row, 'label', None), getattr(cell.col, 'label', None))


DEBUG_DEFAULT = [False]


def _escaped(text, e, debug):
    from .law import Violation
    try:
        what = '%s: %s' % (type(e).__name__, e)
    except Exception:
        what = type(e).__name__
    return Violation('parse(%r)%s raised %s instead of returning a record: no outcome at all, where this property expects a particular one' % (text[:200], ' (debug on)' if debug else '', what[:200]),
                     'raised ' + type(e).__name__, 'a result/error record')


class Env(object):
    """A parser plus the host side: variables, cell/range tables, custom functions, event log."""

    def __init__(self, vars=None, cells=None, ranges=None, funcs=None, debug=None, record=False):
        # debug not stated by the check: the runner's per-case default (on for a quarter of the cases; it must not change any outcome)
        self.P = hot().Parser(debug=DEBUG_DEFAULT[0] if debug is None else debug)
        self.cells = dict((norm_label(k), v) for k, v in (cells or {}).items())
        self.ranges = dict((norm_label(k), v) for k, v in (ranges or {}).items())
        self.log = []
        self.record = record
        for k, v in (vars or {}).items():
            self.P.set_variable(k, v)
        for k, f in (funcs or {}).items():
            self.P.set_function(k, f)
        if self.cells or record:
            self.P.on('callCellValue', self._cell)
        if self.ranges or record:
            self.P.on('callRangeValue', self._range)
        if record:
            self.P.on('callVariable', self._var)
            self.P.on('callFunction', self._func)

    def _cell(self, cell, setter):
        if self.record:
            self.log.append(('cell', cell.label, cell.row.index, cell.col.index, cell.row.is_absolute, cell.col.is_absolute, _part_labels(cell)))
        key = norm_label(cell.label)
        if key in self.cells:
            setter(self.cells[key])

    def _range(self, start, end, setter):
        if self.record:
            self.log.append(('range', start.label, start.row.index, start.col.index, end.label, end.row.index, end.col.index,
                             start.row.is_absolute, start.col.is_absolute, end.row.is_absolute, end.col.is_absolute, _part_labels(start), _part_labels(end)))
        key = '%s:%s' % (norm_label(start.label), norm_label(end.label))
        if key in self.ranges:
            setter(self.ranges[key])
        else:
            key2 = (start.row.index, start.col.index, end.row.index, end.col.index)
            if key2 in self.ranges:
                setter(self.ranges[key2])

    def _var(self, name, setter):
        self.log.append(('var', name))

    def _func(self, name, args, setter):
        self.log.append(('func', name, len(args)))

    def parse(self, text):
        # parse() is documented to return a record whatever happens (property C01); if it raises instead, the law at hand reports it against its own
        # formula (whatever outcome it expected, it did not get it) instead of dying with a harness error
        try:
            if self.P.debug:
                buf = io.StringIO()
                with contextlib.redirect_stderr(buf):
                    return _owned(self.P.parse(text))
            return _owned(self.P.parse(text))
        except Exception as e:
            raise _escaped(text, e, self.P.debug)


def _owned(r):
    """The record parse() returns belongs to the caller, who may do with it what it likes: the checks get a copy, and the
    object the library handed out is overwritten (a host replacing an error with a default, adding bookkeeping keys).  A library
    that hands the same object out again shows it in the next outcome."""
    if type(r) is not dict:
        return r
    mine = dict(r)
    r.clear()
    r['result'] = 'overwritten by the host'
    r['error'] = None
    r['note'] = [mine.get('error')]
    return mine


def ev(text, vars=None, cells=None, ranges=None, funcs=None, debug=None):
    return Env(vars=vars, cells=cells, ranges=ranges, funcs=funcs, debug=debug).parse(text)


_PLAIN = None


def plain_parser():
    """A shared binding-free parser for laws whose formulas are self-contained
    (a fresh one every 2000 uses so that hidden state cannot build up unnoticed)."""
    global _PLAIN
    dbg = bool(DEBUG_DEFAULT[0])
    if _PLAIN is None or _PLAIN[1] > 2000 or _PLAIN[2] != dbg:
        _PLAIN = [hot().Parser(debug=dbg), 0, dbg]
    _PLAIN[1] += 1
    return _PLAIN[0]


def pev(text):
    P = plain_parser()
    try:
        if P.debug:
            with contextlib.redirect_stderr(io.StringIO()):
                return _owned(P.parse(text))
        return _owned(P.parse(text))
    except Exception as e:
        raise _escaped(text, e, P.debug)


# ---------------------------------------------------------------- literals

class NoLiteral(Exception):
    pass


def float_literal(x):
    """Fixed-point decimal spelling whose correctly rounded double is x."""
    if x != x or x in (float('inf'), float('-inf')):
        raise NoLiteral(x)
    s = format(decimal.Decimal(repr(abs(x))), 'f')
    if '.' not in s:
        s += '.0'
    if float(s) != abs(x):
        raise NoLiteral(x)
    return ('-' if (x < 0 or (x == 0 and str(x).startswith('-'))) else '') + s


def str_literal(s, allow_backslash=False):
    # a backslash before a quote is an escape to the lexer (C05's subject): other checks avoid spelling it
    if '\\' in s and not allow_backslash:
        raise NoLiteral(s)
    if '"' not in s:
        return '"' + s + '"'
    if "'" not in s:
        return "'" + s + "'"
    raise NoLiteral(s)


def lit(v):
    """Spell a Python value as a formula literal (raises NoLiteral when it has none)."""
    if v is None:
        return 'NULL'
    if v is True:
        return 'TRUE'
    if v is False:
        return 'FALSE'
    if isinstance(v, int):
        return str(v) if v >= 0 else '-' + str(-v)
    if isinstance(v, float):
        return float_literal(v)
    if isinstance(v, str):
        return str_literal(v)
    if isinstance(v, datetime.datetime):
        if (v.hour, v.minute, v.second, v.microsecond) != (0, 0, 0, 0) or v.year < 1900:
            raise NoLiteral(v)
        return 'DATE(%d,%d,%d)' % (v.year, v.month, v.day)
    if isinstance(v, list):
        if not v:
            raise NoLiteral(v)
        if all(isinstance(r, list) for r in v):
            if any(isinstance(x, list) for r in v for x in r) or any(len(r) < 1 for r in v):
                raise NoLiteral(v)
            if len(v) != 2 or any(len(r) < 2 for r in v):    # '{1;2}' is a flat list, not two rows; one row, three rows... are written with inner braces
                return '{' + ','.join('{' + ','.join(lit(x) for x in r) + '}' for r in v) + '}'
            return '{' + ';'.join(','.join(lit(x) for x in r) for r in v) + '}'
        if any(isinstance(x, list) for x in v):
            return '{' + ','.join(lit(x) for x in v) + '}'
        return '{' + ','.join(lit(x) for x in v) + '}'
    raise NoLiteral(v)


def can_lit(v):
    try:
        lit(v)
        return True
    except NoLiteral:
        return False


def reset_shared_errors():
    """Harness hygiene: drop the traceback chains of the library's shared error objects before a case.
    If the tree under test lets them grow (that is what C02 no_retention measures, inside a single case), debug-mode
    tracebacks would otherwise get longer with every case of the process and the whole run would crawl."""
    err = errors()
    for name in ('ERROR', 'DIV_ZERO', 'NAME', 'NOT_AVAILABLE', 'NULL', 'NUM', 'REF', 'VALUE', 'DATA'):
        e = getattr(err, name, None)
        if e is not None:
            try:
                e.__traceback__ = None
                e.__cause__ = None          # host callbacks of earlier cases may have chained the shared objects ("raise X from exc")
                e.__context__ = None
                e.__suppress_context__ = False
            except Exception:
                pass

