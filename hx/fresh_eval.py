"""Child process of C02 order_independence: a brand-new interpreter evaluates formulas in the given order.

usage: python fresh_eval.py <snapshot-dir>   (JSON on stdin: {"formulas": [...], "debug": bool}; JSON list of outcome strings on stdout)
Stands alone on purpose (imports nothing from hx): the interpreter must hold no state but the library's own.
"""
import json
import sys


def show(v):
    if isinstance(v, list):
        return '[' + ', '.join(show(x) for x in v) + ']'
    if isinstance(v, BaseException):
        return 'exc:%s:%s' % (type(v).__name__, v)
    return '%s:%r' % (type(v).__name__, v)


def main():
    sys.path.insert(0, sys.argv[1])
    sys.dont_write_bytecode = True
    import datetime
    import hotxlfp
    job = json.load(sys.stdin)
    binds = {'v_t': True, 'v_u': False, 'v_f': 1.0, 'v_i': 1, 'v_z': 0.0, 'v_nz': -0.0, 'v_o': 0, 'v_s': '1', 'v_w': 2.0, 'v_x': 2,
             'v_d': datetime.datetime(1900, 1, 1), 'v_e': datetime.datetime(1899, 12, 31), 'v_big': 2 ** 53, 'v_bigf': float(2 ** 53), 'v_l': [1, 1.0, True], 'v_m': [1.0, 1, True]}
    out = []
    for f in job['formulas']:
        P = hotxlfp.Parser(debug=job.get('debug', False))
        for k, v in binds.items():
            P.set_variable(k, list(v) if isinstance(v, list) else v)
        try:
            if f.startswith('DEGREES('):
                P.set_function('DEGREES', lambda *a: 4242)      # a custom function under the name of a built-in takes its place
            r = P.parse(f)
            out.append('%s|%s' % (show(r['result']), r['error']))
        except BaseException as e:
            out.append('RAISED %s' % type(e).__name__)
    json.dump(out, sys.stdout)


if __name__ == '__main__':
    main()
