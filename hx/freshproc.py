"""Run formulas in a brand-new interpreter (hx/fresh_eval.py): the only way to observe state the library keeps at module level or in the interpreter, and
the only way to give it another process environment (time zone)."""
import json
import os
import subprocess
import sys

from . import snapshot


def run_fresh(formulas, debug=False, env_extra=None, timeout=120):
    here = os.path.join(os.path.dirname(os.path.abspath(__file__)), 'fresh_eval.py')
    env = dict(os.environ, PYTHONHASHSEED='0', PYTHONDONTWRITEBYTECODE='1')
    if env_extra:
        env.update(env_extra)
    p = subprocess.run([sys.executable, here, snapshot.directory()], input=json.dumps({'formulas': formulas, 'debug': debug}), capture_output=True, text=True, timeout=timeout, env=env)
    if p.returncode != 0:
        # the library cannot even be imported or the child died: not a verdict about the property
        raise RuntimeError('fresh interpreter failed: %s' % p.stderr[-400:])
    return json.loads(p.stdout)
