#!/venv/bin/python
"""atheris / libFuzzer target for C01: parse() is total and returns a well-formed record.

Run by hx/checks/c01.py as a subprocess:  parse_target.py <libFuzzer args> <corpus dir>
Environment: HX_SNAP_DIR = directory holding the snapshot copy of hotxlfp.
The oracle is inside the target; a violation raises and libFuzzer saves the input.
"""
import os
import sys

sys.path.insert(0, os.environ['HX_SNAP_DIR'])
sys.path.append(os.path.join(os.path.dirname(os.path.dirname(os.path.dirname(os.path.abspath(__file__)))), '.deps'))
sys.dont_write_bytecode = True
import atheris  # noqa

with atheris.instrument_imports(include=['hotxlfp', 'ply']):
    import hotxlfp  # noqa
    from hotxlfp.formulas import error as xlerror  # noqa

CODES9 = set(['#ERROR!', '#DIV/0!', '#NAME?', '#N/A', '#NULL!', '#NUM!', '#REF!', '#VALUE!', '#GETTING_DATA'])
STATE = {'n': 0, 'P': None}


class OracleViolation(Exception):
    pass


def well_formed(r):
    if not isinstance(r, dict) or set(r.keys()) != set(['result', 'error']):
        return 'record %r' % (r,)
    if r['error'] is not None and r['error'] not in CODES9:
        return 'error field %r' % (r['error'],)
    if r['error'] is not None and r['result'] is not None:
        return 'error %r with result %r' % (r['error'], r['result'])
    if isinstance(r['result'], xlerror.XLError):
        return 'result is an error object %r' % (r['result'],)
    return None


def one(data):
    if STATE['n'] % 1000 == 0:
        P = hotxlfp.Parser()
        P.set_variable('v_a', 4)
        P.set_variable('v_s', 'txt')
        P.set_variable('v_l', [1, 2, 3])
        P.set_function('HF', lambda *a: len(a))
        P.on('callCellValue', lambda cell, setter: setter(cell.row.index + cell.col.index))
        P.on('callRangeValue', lambda s, e, setter: setter([s.row.index, e.row.index]))
        STATE['P'] = P
    STATE['n'] += 1
    text = data.decode('utf-8', 'surrogateescape')
    if len(text) > 300:
        return
    # keep C-level big-integer / huge-text cost bounded: literal exponents, factorial arguments, repeat counts and padding widths stay small (see DESIGN, C01 limits)
    if '^' in text or 'FACT' in text or 'POWER' in text or 'E+' in text or 'REPT' in text or 'BASE' in text or 'DEC2' in text or 'e+' in text:
        import re
        if re.search(r'\d{4,}', text):
            return
    try:
        r = STATE['P'].parse(text)
    except Exception as e:
        raise OracleViolation('parse(%r) raised %s: %s' % (text, type(e).__name__, e))
    m = well_formed(r)
    if m:
        raise OracleViolation('parse(%r) -> %s' % (text, m))


if __name__ == '__main__':
    atheris.Setup(sys.argv, one)
    atheris.Fuzz()
