"""Expression trees as plain data, renderers to token lists / text, and a native reference evaluator.

Tree nodes (JSON lists):
  ['num', '12']            integer literal            ['dec', '0.75'] decimal literal
  ['var', name]            variable reference         ['cell', label]  ['range', a, b]
  ['str', content, quote]  quoted literal             ['errlit', '#N/A']
  ['call', name, [args]]   function call (args may be None = omitted slot)
  ['neg', e]  ['bin', op, l, r]  ['paren', e]  ['arr', [elements]]
  ['src', text, code]      opaque self-delimiting sub-formula that evaluates to the error `code`

Rendering produces a *token list* first; "token boundary" is therefore known by
construction and the implementation's lexer is never consulted.
"""
from hypothesis import strategies as st

from .ref import order as ro
from .ref.arith import Err, Unspecified

CMP = ['=', '<>', '<', '>', '<=', '>=']
ARITH = ['+', '-', '*', '/']


def prec(node):
    k = node[0]
    if k == 'bin':
        op = node[1]
        if op in CMP:
            return 1
        if op in '+-':
            return 2
        if op in '*/':
            return 3
        return 5        # '&': handled separately
    if k == 'neg':
        return 4
    return 9


CMP_ROW = {'=': 0, '<=': 1, '>=': 1, '<>': 1, '<': 2, '>': 2}      # the comparison operators the grammar ranks alike (between the rows the written order of a chain is not the usual reading: parenthesised)


def is_atomish(node):
    """operands of & that need no parentheses whatever rank & has against + and *"""
    return node[0] not in ('bin',)


def tokens(node, style='min', sep=','):
    """style: min | full"""
    k = node[0]
    if k in ('num', 'dec'):
        return [node[1]]
    if k == 'var':
        return [node[1]]
    if k == 'cell':
        return [node[1]]
    if k == 'range':
        return [node[1], ':', node[2]]        # three tokens: white space may stand on either side of the colon
    if k == 'str':
        return [node[2] + node[1] + node[2]]
    if k == 'errlit':
        return [node[1]]
    if k == 'src':          # ['src', text, code]: an opaque error-producing sub-formula (already self-delimiting)
        return [node[1].replace(',', sep) if sep != ',' and '"' not in node[1] else node[1]]
    if k == 'paren':
        return ['('] + tokens(node[1], style, sep) + [')']
    if k == 'call':
        out = [node[1] + '(']
        for i, a in enumerate(node[2]):
            if i:
                out.append(sep)
            if a is not None:
                out += tokens(a, style, sep)
        out.append(')')
        return out
    if k == 'arr':
        out = ['{']
        for i, a in enumerate(node[1]):
            if i:
                out.append(sep)
            out += tokens(a, style, sep)
        out.append('}')
        return out
    if k == 'neg':
        inner = tokens(node[1], style, sep)
        if style == 'full' or node[1][0] == 'bin':
            return ['-', '('] + inner + [')']
        return ['-'] + inner
    if k == 'bin':
        op, l, r = node[1], node[2], node[3]
        lt, rt = tokens(l, style, sep), tokens(r, style, sep)
        if style == 'full':
            lp = l[0] in ('bin', 'neg')
            rp = r[0] in ('bin', 'neg')
        elif op == '&':
            lp = not is_atomish(l) and not (l[0] == 'bin' and l[1] == '&')
            rp = not is_atomish(r)
        else:
            p = prec(node)
            if l[0] == 'bin' and l[1] == '&':
                lp = p != 1          # an & chain directly under a comparison needs none: & binds tighter
            else:
                lp = prec(l) < p or (p == 1 and prec(l) == 1 and CMP_ROW[l[1]] != CMP_ROW[op])     # a comparison chain of one rank reads from the left: a<b>c is (a<b)>c
            if r[0] == 'bin' and r[1] == '&':
                rp = p != 1
            else:
                rp = prec(r) <= p
        return (['('] + lt + [')'] if lp else lt) + [op] + (['('] + rt + [')'] if rp else rt)
    raise ValueError(node)


def join(toks, spacing=None):
    """spacing: list of whitespace strings, one per gap (cycled); never inside a token"""
    if not spacing:
        return ''.join(toks)
    out = []
    for i, t in enumerate(toks):
        if i:
            out.append(spacing[(i - 1) % len(spacing)])
        out.append(t)
    return ''.join(out)


def render(node, style='min', sep=',', spacing=None):
    return join(tokens(node, style, sep), spacing)


def add_redundant(node, picks):
    """wrap the sub-expressions selected by the bit list `picks` (consumed in pre-order) in ['paren', .]"""
    it = iter(picks)

    def go(n):
        k = n[0]
        if k == 'neg':
            m = ['neg', go(n[1])]
        elif k == 'bin':
            m = ['bin', n[1], go(n[2]), go(n[3])]
        elif k == 'call':
            m = ['call', n[1], [None if a is None else go(a) for a in n[2]]]
        elif k == 'arr':
            m = ['arr', [go(a) for a in n[1]]]
        elif k == 'paren':
            m = ['paren', go(n[1])]
        else:
            m = n
        if next(it, 0):
            return ['paren', m]
        return m
    return go(node)


def size(node):
    k = node[0]
    if k == 'neg' or k == 'paren':
        return 1 + size(node[1])
    if k == 'bin':
        return 1 + size(node[2]) + size(node[3])
    if k == 'call':
        return 1 + sum(size(a) for a in node[2] if a is not None)
    if k == 'arr':
        return 1 + sum(size(a) for a in node[1])
    return 1


def walk(node):
    yield node
    k = node[0]
    if k in ('neg', 'paren'):
        for x in walk(node[1]):
            yield x
    elif k == 'bin':
        for x in walk(node[2]):
            yield x
        for x in walk(node[3]):
            yield x
    elif k == 'call':
        for a in node[2]:
            if a is not None:
                for x in walk(a):
                    yield x
    elif k == 'arr':
        for a in node[1]:
            for x in walk(a):
                yield x


# ---------------------------------------------------------------- native reference evaluator

def ref_eval(node, env):
    """env: {'vars': {name: value}, 'cells': {LABEL: value}, 'ranges': {...}, 'funcs': {name: callable(*values)}}
    Values: int, float, bool, None, str, Err, list.  Raises Unspecified where no statement decides."""
    k = node[0]
    if k == 'num':
        return int(node[1])
    if k == 'dec':
        return float(node[1] if not node[1].startswith('.') else '0' + node[1])
    if k == 'var':
        name = node[1]
        if name == 'TRUE':
            return True
        if name == 'FALSE':
            return False
        if name == 'NULL':
            return None
        if name not in env.get('vars', {}):
            return Err('#NAME?')
        return env['vars'][name]
    if k == 'cell':
        return env.get('cells', {}).get(node[1].replace('$', '').upper())
    if k == 'range':
        return env.get('ranges', {}).get((node[1] + ':' + node[2]).replace('$', '').upper())
    if k == 'str':
        return node[1]
    if k == 'errlit':
        raise Abort(node[1])
    if k == 'src':
        return Err(node[2])
    if k == 'paren':
        return ref_eval(node[1], env)
    if k == 'arr':
        return [ref_eval(a, env) for a in node[1]]
    if k == 'call':
        args = [None if a is None else ref_eval(a, env) for a in node[2]]
        fn = env.get('funcs', {}).get(node[1])
        if fn is None:
            raise Unspecified('no reference for %s' % node[1])
        return fn(*args)
    if k == 'neg':
        v = ref_eval(node[1], env)
        if isinstance(v, Err):
            return v
        if isinstance(v, bool) or not isinstance(v, (int, float)):
            raise Unspecified('unary minus on %r' % (v,))
        return -v
    op = node[1]
    l = ref_eval(node[2], env)
    r = ref_eval(node[3], env)
    if isinstance(l, Err):
        return l
    if isinstance(r, Err):
        return r
    if isinstance(l, list) or isinstance(r, list):
        raise Unspecified('array operand')
    if op == '&':
        def piece(v):
            if v is None:
                return ''
            if isinstance(v, bool) or isinstance(v, float):
                raise Unspecified('& on %r' % (v,))
            return v if isinstance(v, str) else str(v)
        return piece(l) + piece(r)
    if op in CMP:
        try:
            c = ro.compare(l, r)
        except ro.Ambiguous:
            raise Unspecified('text direction')
        return {'=': c == 0, '<>': c != 0, '<': c < 0, '>': c > 0, '<=': c <= 0, '>=': c >= 0}[op]
    for v in (l, r):
        if isinstance(v, str) and not any(ch.isdigit() for ch in v) and v.strip().lower() not in MONTHISH:
            return Err('#VALUE!')       # text that spells neither a number nor a date (no digit in it, not a month or day name) under + - * /
        if isinstance(v, bool) or not isinstance(v, (int, float)):
            raise Unspecified('arithmetic on %r' % (v,))
    if op == '+':
        return l + r
    if op == '-':
        return l - r
    if op == '*':
        return l * r
    if r == 0:
        return Err('#DIV/0!')
    return l / r


MONTHISH = set('jan feb mar apr may jun jul aug sep sept oct nov dec january february march april june july august september october november december mon tue wed thu fri sat sun monday tuesday wednesday thursday friday saturday sunday today now am pm a p'.split())


class Abort(Exception):
    """an error literal aborts the whole formula with its code"""
    def __init__(self, code):
        Exception.__init__(self, code)
        self.code = code


# ---------------------------------------------------------------- strategies

SPACES = ['', '', ' ', ' ', '\t', '\n', '  ', ' \n ', '\r\n', '', ' ', '\xa0', '\x0b', '\x0c', '\u2003', '\u3000', '\u2028', '\x85', '\x1f \u202f']       # what the lexer's \s+ calls white space: the no-break and typographic spaces and the line separators too
spacing_s = st.lists(st.sampled_from(SPACES), min_size=1, max_size=7)


def tree_strategy(leaves, calls=None, unary=True, ops=ARITH, cmp_top=False, amp=False, max_leaves=12):
    """Recursive trees: `leaves` strategy of leaf nodes; `calls`: list of (name, arity strategy)."""
    def extend(children):
        alts = [st.tuples(st.just('bin'), st.sampled_from(ops), children, children).map(list)]
        if unary:
            alts.append(st.tuples(st.just('neg'), children).map(list))
        if calls:
            for name, nargs in calls:
                alts.append(st.tuples(st.just('call'), st.just(name), st.lists(children, min_size=nargs[0], max_size=nargs[1])).map(list))
        alts.append(st.tuples(st.just('bin'), st.sampled_from(ops), children, children).map(list))
        return st.one_of(*alts)
    base = st.recursive(leaves, extend, max_leaves=max_leaves)
    return base
