"""A Law is one executable sub-claim of a property.

  strategy    Hypothesis strategy producing a JSON-serialisable case, or
  enumerate   callable (tier, shard, nshards) -> iterable of distinct cases
  check       plain function(case); raises Violation when the claim fails
  nontrivial  the stated non-triviality rule
  key         coarse classification key, used to tell root causes apart and to
              match known findings
  classes     function(case) -> iterable of labels counted in the evidence;
              every label in `required` must be seen at least once (vacuity guard)
"""


QUICK_SCALE = 3


class Violation(Exception):
    def __init__(self, msg, observed=None, expected=None, case=None):
        Exception.__init__(self, msg)
        self.msg = msg
        self.case = case
        self.observed = observed
        self.expected = expected


class Skip(Exception):
    """The case lies in a region the statement leaves open (counted, not judged)."""
    def __init__(self, why='ambiguous'):
        Exception.__init__(self, why)
        self.why = why


class Law(object):
    def __init__(self, name, check, strategy=None, enumerate=None, nontrivial=None, key=None,
                 classes=None, required=(), quick=1000, thorough=20000,
                 shards=(4, 16), rule='', exhaustive=False, shrink=True, setup=None, weight=None, nt_weight=None, guard=None):
        assert (strategy is None) != (enumerate is None)
        self.name = name
        self.check = check
        self.strategy = strategy
        self.enumerate = enumerate
        self.nontrivial = nontrivial or (lambda case: True)
        self.key = key or (lambda case: '')
        self.classes = classes or (lambda case: ())
        self.required = tuple(required)
        self.quick = quick
        self.thorough = thorough
        self.shards = shards
        self.rule = rule
        self.exhaustive = exhaustive
        self.shrink = shrink
        self.setup = setup
        self.guard = guard        # seconds one case may take before the run is declared inconclusive (default: runner.CASE_GUARD_S)
        self.weight = weight or (lambda case: 1)
        self.nt_weight = nt_weight or self.weight

    def budget(self, tier):
        # the per-law quick figures were calibrated at 4-20 s per property; three times that keeps every quick check under a minute on 16 cores
        return self.quick * QUICK_SCALE if tier == 'quick' else self.thorough

    def nshards(self, tier):
        return self.shards[0] if tier == 'quick' else self.shards[1]
