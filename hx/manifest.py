"""Regenerates /verif/MANIFEST.json from the check modules present (python -m hx.manifest)."""
import importlib
import json
import os

ROOT = os.path.dirname(os.path.dirname(os.path.abspath(__file__)))
PY = '/venv/bin/python'
ALL = ['C%02d' % i for i in range(1, 21)]

SETUP = ("%s -c 'import hypothesis' 2>/dev/null || %s -m pip install -q --no-index --find-links /opt/veriftools/wheels hypothesis; "
         "%s -m pip install -q --no-index --find-links /opt/veriftools/wheels --target /verif/.deps mpmath atheris 2>/dev/null || true; "
         "%s -c 'import hypothesis, ply, dateutil; print(\"hx setup ok\")'") % (PY, PY, PY, PY)


def main():
    checks = []
    na = []
    for pid in ALL:
        path = os.path.join(ROOT, 'hx', 'checks', pid.lower() + '.py')
        if not os.path.exists(path):
            na.append({'property_id': pid, 'reason': 'not yet claimed: check under construction (property-based testing applies; see DESIGN.md section 5)'})
            continue
        src = open(path).read()
        meta = {}
        # metadata is kept as module-level string constants; read them without importing hotxlfp
        ns = {}
        for line_name in ('LEVEL_TEXT', 'LEVEL_NOTE', 'TECHNIQUE'):
            pass
        import ast
        tree = ast.parse(src)
        for node in tree.body:
            if isinstance(node, ast.Assign) and len(node.targets) == 1 and isinstance(node.targets[0], ast.Name):
                if node.targets[0].id in ('LEVEL_TEXT', 'LEVEL_NOTE', 'TECHNIQUE'):
                    meta[node.targets[0].id] = ast.literal_eval(node.value)
        checks.append({
            'property_id': pid,
            'quick_cmd': '%s -m hx %s --tier quick' % (PY, pid),
            'thorough_cmd': '%s -m hx %s --tier thorough' % (PY, pid),
            'evidence_file': '/verif/evidence/%s.json' % pid,
            'replay_cmd_template': '%s -m hx %s --replay {path}' % (PY, pid),
            'engine': 'hx',
            'level_claimed': {'category': 'exploration', 'text': meta.get('LEVEL_TEXT', ''), 'design_ref': 'DESIGN.md section 5, %s' % pid},
            'level_note': meta.get('LEVEL_NOTE', ''),
            'technique': meta.get('TECHNIQUE', 'property-based testing (Hypothesis) against an independent reference model'),
        })
    man = {
        'version': 1,
        'setup_cmd': SETUP,
        'hooks': {
            'guard': 'AIDHOUND_HOTXLFP_VERIF',
            'enable': 'no hooks are needed: every observation point is public API (parse outcomes, listeners, custom functions, gc, sys.settrace); checks import a private copy of /repo/hotxlfp',
            'baseline_off_cmd': 'cd /repo && /venv/bin/python -m pytest -q -p no:cacheprovider',
            'source_commits': [],
            'add_only': True,
        },
        'engines': [{'name': 'hx', 'path': '/verif/hx', 'serves_properties': [c['property_id'] for c in checks],
                     'kind_free_text': 'Hypothesis property-based testing + exhaustive enumerators over finite domains + atheris fuzzing, sharded over 16 processes, with JSON replay files'}],
        'checks': checks,
        'not_applicable': na,
        'notes': 'Each check copies /repo/hotxlfp (or $HX_REPO/hotxlfp) to a temporary directory and imports it from there. VERIF_SEED selects the Hypothesis seeds. Exit 2 = harness error / inconclusive, never a violation. Genuine defects found are in known_findings.json (fixed ones as fix: commits in /repo).',
    }
    with open(os.path.join(ROOT, 'MANIFEST.json'), 'w') as f:
        json.dump(man, f, indent=1)
    print('MANIFEST.json: %d checks, %d not_applicable' % (len(checks), len(na)))


if __name__ == '__main__':
    main()
