"""Reference semantics of + - * / & on scalar operands, transcribed from the
statement of C06 (numeric values, where a date comes back, error outcomes).
Shares no code with hotxlfp."""
import datetime
import re
from fractions import Fraction

from . import dates as rd

NUM_TEXT = re.compile(r'\A[+-]?(\d+(\.\d*)?|\.\d+)([eE][+-]?\d+)?\Z')        # scientific notation spells a number too (it is how the library's own & writes large and small floats)
ISO_TEXT = re.compile(r'\A\d{4}-\d{2}-\d{2}([ T]\d{2}:\d{2}:\d{2})?\Z')
MONTHS = ['January', 'February', 'March', 'April', 'May', 'June', 'July', 'August', 'September', 'October', 'November', 'December']
_MON = '|'.join(m + '|' + m[:3] for m in MONTHS)
WORD_DATES = [re.compile(r'\A(?:(?:Mon|Tue|Wed|Thu|Fri|Sat|Sun), )?(?P<d>\d{1,2}) (?P<m>%s) (?P<y>\d{4})\Z' % _MON),        # 20 Nov 2019, 20 November 2019, Wed, 20 Nov 2019
              re.compile(r'\A(?P<m>%s) (?P<d>\d{1,2}), (?P<y>\d{4})\Z' % _MON)]                                             # Nov 20, 2019
COMPACT_ISO = re.compile(r'\A(\d{4})(\d{2})(\d{2})T(\d{2})(\d{2})(\d{2})\Z')                                          # 20191120T063000


def word_date(v):
    """the date-time a text spells with its month as an English word, or in compact ISO form; None if it is neither"""
    for rx in WORD_DATES:
        m = rx.match(v)
        if m:
            return datetime.datetime(int(m.group('y')), [x[:3] for x in MONTHS].index(m.group('m')[:3]) + 1, int(m.group('d')))
    m = COMPACT_ISO.match(v)
    if m:
        return datetime.datetime(*[int(g) for g in m.groups()])
    return None


class Unspecified(Exception):
    """the statement does not decide this case"""


class Err(object):
    def __init__(self, code):
        self.code = code

    def __eq__(self, o):
        return isinstance(o, Err) and o.code == self.code

    def __repr__(self):
        return 'Err(%s)' % self.code


def classify(v):
    """-> (kind, numeric value) with kind in number | date | blank | badtext | error"""
    if isinstance(v, Err):
        return 'error', v
    if v is None:
        return 'blank', Fraction(0)
    if isinstance(v, bool):
        return 'number', Fraction(int(v))
    if isinstance(v, (int, float)):
        return 'number', Fraction(v)
    if isinstance(v, datetime.datetime):
        if v < rd.MAR1_1900:
            raise Unspecified('date before 1 March 1900')
        return 'date', rd.serial_exact(v)
    if isinstance(v, str):
        if NUM_TEXT.match(v):
            return 'number', Fraction(v) if ('.' not in v and 'e' not in v.lower()) else Fraction(float(v))
        if ISO_TEXT.match(v):
            return classify(datetime.datetime.fromisoformat(v.replace(' ', 'T')))
        d = word_date(v)
        if d is not None:
            return classify(d)
        return 'badtext', None
    raise Unspecified('value %r' % (v,))


def result_is_date(op, lk, rk):
    """independent transcription of where the conversion table returns a date"""
    dates = (lk == 'date') + (rk == 'date')
    if dates != 1:
        return False
    if op in '+-*':
        return True
    # division: date/number and number/date come back as dates; blank on either side does not
    return lk != 'blank' and rk != 'blank'


def arith(op, a, b):
    """-> ('num', Fraction) | ('date', Fraction serial) | ('err', code)"""
    lk, lv = classify(a)
    rk, rv = classify(b)
    if lk == 'error':
        return ('err', lv.code)
    if rk == 'error':
        return ('err', rv.code)
    if lk == 'badtext' or rk == 'badtext':
        return ('err', '#VALUE!')
    if op == '+':
        x = lv + rv
    elif op == '-':
        x = lv - rv
    elif op == '*':
        x = lv * rv
    else:
        if rv == 0:
            return ('err', '#DIV/0!')
        x = lv / rv
    if result_is_date(op, lk, rk):
        if x < 0:
            return ('err', '#NUM!')
        return ('date', x)
    return ('num', x)


def concat_piece(v):
    if v is None:
        return ''
    if isinstance(v, bool):
        raise Unspecified('logical in &')
    if isinstance(v, str):
        return v
    if isinstance(v, int):
        return str(v)
    raise Unspecified('%r in &' % (v,))
