"""Reference model of cell labels, independent of hotxlfp.helper.cell."""
import itertools
import re
import string

LETTERS = string.ascii_uppercase

LABEL_RE = re.compile(r'\A(\$?)([A-Za-z]+)(\$?)([1-9][0-9]*)\Z')
ZERO_ROW_RE = re.compile(r'\A\$?[A-Za-z]+\$?0[0-9]*\Z')


def columns_in_order(maxlen=4):
    """Yield (index, label) in bijective base-26 order by plain enumeration."""
    k = 0
    for n in range(1, maxlen + 1):
        for tup in itertools.product(LETTERS, repeat=n):
            yield k, ''.join(tup)
            k += 1


def col_index(label):
    """Number of labels that precede `label` in (length, alphabetical) order."""
    label = label.upper()
    n = len(label)
    shorter = sum(26 ** i for i in range(1, n))
    pos = 0
    for ch in label:
        pos = pos * 26 + LETTERS.index(ch)
    return shorter + pos


def col_label(index):
    n = 1
    while index >= 26 ** n:
        index -= 26 ** n
        n += 1
    out = []
    for _ in range(n):
        out.append(LETTERS[index % 26])
        index //= 26
    return ''.join(reversed(out))


def parse_label(text):
    """-> (row_index, col_index, row_abs, col_abs) or None when not a label."""
    m = LABEL_RE.match(text)
    if not m:
        return None
    cabs, col, rabs, row = m.groups()
    return (int(row) - 1, col_index(col), rabs == '$', cabs == '$')


def is_ambiguous(text):
    return ZERO_ROW_RE.match(text) is not None
