"""Reference calendar arithmetic from datetime/calendar only (no hotxlfp code)."""
import calendar
import datetime
from fractions import Fraction

EPOCH = datetime.datetime(1899, 12, 30)
EPOCH_ORD = datetime.date(1899, 12, 30).toordinal()
MAR1_1900 = datetime.datetime(1900, 3, 1)
FIRST_ORD = datetime.date(1900, 1, 1).toordinal()
MAR1_ORD = datetime.date(1900, 3, 1).toordinal()
LAST_ORD = datetime.date(9999, 12, 31).toordinal()


def serial_exact(dt):
    """Excel 1900-system serial of a date-time >= 1 March 1900, as an exact Fraction."""
    days = dt.toordinal() - EPOCH_ORD
    us = ((dt.hour * 60 + dt.minute) * 60 + dt.second) * 1000000 + dt.microsecond
    return Fraction(days) + Fraction(us, 86400 * 1000000)


def serial(dt):
    return float(serial_exact(dt))


def from_serial_exact(fr):
    """date-time for an exact serial >= 61 (microsecond resolution, rounded)."""
    days = int(fr // 1)
    us = int(round((fr - days) * 86400 * 1000000))
    return datetime.datetime.fromordinal(EPOCH_ORD + days) + datetime.timedelta(microseconds=us)


def month_len(y, m):
    return calendar.monthrange(y, m)[1]


def add_months(y, m, k):
    t = (y * 12 + (m - 1)) + k
    return t // 12, t % 12 + 1
