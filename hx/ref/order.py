"""Reference total order of scalar values, from the statement of C07:
number|date (by value / serial) < text (lexicographic) < logical (FALSE < TRUE);
a blank compares as 0, '' or FALSE according to the other operand."""
import datetime
from fractions import Fraction

from . import dates as rd


class Ambiguous(Exception):
    pass


def rank(v):
    if isinstance(v, bool):
        return 2
    if isinstance(v, str):
        return 1
    if isinstance(v, (int, float, datetime.datetime)):
        return 0
    raise ValueError(v)


def numeric(v):
    if isinstance(v, datetime.datetime):
        if v < rd.MAR1_1900:
            raise Ambiguous('date before 1 March 1900')
        return rd.serial_exact(v)
    if isinstance(v, float) and v in (float('inf'), float('-inf')):
        return v            # an infinity from the host orders above / below every finite number (Fraction compares with it exactly)
    return Fraction(v)


def unblank(v, other):
    if v is not None:
        return v
    if other is None:
        return None
    r = rank(other)
    return 0 if r == 0 else ('' if r == 1 else False)


def compare(a, b, strict_text=True):
    """-> -1, 0, 1.  Raises Ambiguous where the statement leaves the direction open
    (text whose code-point order and case-folded order disagree)."""
    a, b = unblank(a, b), unblank(b, a)
    if a is None and b is None:
        return 0
    ra, rb = rank(a), rank(b)
    if ra != rb:
        return -1 if ra < rb else 1
    if ra == 0:
        x, y = numeric(a), numeric(b)
        return (x > y) - (x < y)
    if ra == 2:
        return (a > b) - (a < b)
    c = (a > b) - (a < b)
    fa, fb = a.casefold(), b.casefold()
    cf = (fa > fb) - (fa < fb)
    if c != cf and strict_text:
        raise Ambiguous('case-folded and code-point order differ')
    return c
