"""General subtractive evaluation of Roman numerals: a symbol smaller than its successor is subtracted."""
VAL = {'M': 1000, 'D': 500, 'C': 100, 'L': 50, 'X': 10, 'V': 5, 'I': 1}


def denotes(text):
    if not text or any(ch not in VAL for ch in text):
        return None
    total = 0
    for i, ch in enumerate(text):
        v = VAL[ch]
        nxt = None
        # a run of equal symbols followed by a larger one is subtracted as a whole only for a single symbol;
        # compare with the next different symbol
        j = i + 1
        while j < len(text) and text[j] == ch:
            j += 1
        if j < len(text):
            nxt = VAL[text[j]]
        if nxt is not None and v < nxt and j == i + 1:
            total -= v
        else:
            total += v
    return total
