"""Schedules the laws of one property over a process pool, merges counters,
writes evidence and replay files, prints the VIOLATION / KNOWN-FINDING lines.

Exit codes: 0 held, 1 violation (not a listed finding), 2 harness error /
inconclusive (never reported as a violation).
"""
import importlib
import json
import multiprocessing
import os
import contextlib
import io
import signal
import sys
import time
import traceback
import zlib
from collections import Counter

from . import snapshot, values
from .law import Violation, Skip

ROOT = os.path.dirname(os.path.dirname(os.path.abspath(__file__)))
CASE_GUARD_S = 120
MAX_ROUNDS = 6


class HarnessTimeout(BaseException):
    pass


def _alarm(signum, frame):
    raise HarnessTimeout()


def derive_seed(*parts):
    return zlib.crc32(':'.join(str(p) for p in parts).encode()) & 0x7fffffff


def load_module(pid):
    return importlib.import_module('hx.checks.%s' % pid.lower())


class Acc(object):
    def __init__(self):
        self.evals = 0
        self.digests = set()
        self.nontrivial_n = 0
        self.excluded = Counter()
        self.skipped = Counter()
        self.classes = Counter()
        self.samples = []
        self.keys = Counter()

    def note(self, law, case, distinct_by_construction):
        w = law.weight(case)
        self.evals += w
        for c in law.classes(case):
            self.classes[c] += w
        if law.nontrivial(case):
            if distinct_by_construction:
                self.nontrivial_n += law.nt_weight(case)
            else:
                self.digests.add(values.case_digest(case))
        self.ncases = getattr(self, 'ncases', 0) + 1
        n = self.ncases
        if n <= 2 or (n & (n - 1)) == 0:
            self.samples.append(case)


def guarded_check(law, case):
    if law.name != 'no_retention':
        from .env import reset_shared_errors
        reset_shared_errors()
    # a quarter of the cases (chosen by the case itself, so a replay makes the same choice) run with the parser's debug output on wherever the check
    # does not say; the traceback text goes to a buffer
    from . import env as _env
    dbg = values.case_digest(case)[0] % 4 == 0 and law.name != 'no_retention'        # (that law measures memory and sets debug itself)
    _env.DEBUG_DEFAULT[0] = dbg
    signal.setitimer(signal.ITIMER_REAL, law.guard or CASE_GUARD_S)
    try:
        if dbg:
            with contextlib.redirect_stderr(io.StringIO()):
                law.check(case)
        else:
            law.check(case)
    finally:
        signal.setitimer(signal.ITIMER_REAL, 0)


def _hyp_round(law, n, seedval, excluded, acc, shrink):
    import hypothesis
    from hypothesis import given, settings, seed, HealthCheck, Phase, Verbosity
    holder = {}

    def body(case):
        k = law.key(case)
        if k in excluded:
            acc.excluded[k] += 1
            return
        try:
            guarded_check(law, case)
        except Skip as s:
            acc.skipped[s.why] += 1
            return
        except Violation as v:
            acc.note(law, case, False)
            holder['fail'] = (v.case if v.case is not None else case, v)     # a check may hand back a smaller case that fails for the same reason
            raise
        acc.note(law, case, False)
        acc.keys[k] += 1

    phases = [Phase.generate, Phase.target]
    if shrink:
        phases.append(Phase.shrink)
    st_settings = settings(max_examples=n, database=None, deadline=None, derandomize=False,
                           report_multiple_bugs=False, verbosity=Verbosity.quiet,
                           suppress_health_check=[HealthCheck.too_slow, HealthCheck.data_too_large],
                           phases=phases)
    test = seed(seedval)(st_settings(given(law.strategy)(body)))
    try:
        test()
    except Violation:
        return holder['fail']
    except hypothesis.errors.Flaky:
        # the same case failed once and passed once: the code under test keeps state between evaluations.
        # A violation was actually observed on the real code, so it is reported (it may not replay in a fresh process).
        if holder.get('fail'):
            case, v = holder['fail']
            v.msg = v.msg + ' [the same case later passed: outcome depends on earlier evaluations in the process]'
            return case, v
        raise
    return None


def run_task(task):
    pid, idx, tier, seedv, shard, nshards, known_excluded = task
    signal.signal(signal.SIGALRM, _alarm)
    t0 = time.time()
    mod = load_module(pid)
    law = mod.LAWS[idx]
    acc = Acc()
    failures = []
    herr = None
    excluded = set(known_excluded)
    try:
        if law.setup:
            law.setup()
        if law.strategy is not None:
            n = max(1, law.budget(tier) // nshards)
            for rnd in range(MAX_ROUNDS):
                sv = derive_seed(seedv, law.name, shard, rnd)
                fail = _hyp_round(law, n, sv, excluded, acc, law.shrink)
                if fail is None:
                    break
                case, v = fail
                k = law.key(case)
                failures.append({'key': k, 'case': case, 'msg': v.msg,
                                 'observed': values.enc(v.observed), 'expected': values.enc(v.expected)})
                excluded.add(k)
        else:
            for case in law.enumerate(tier, shard, nshards):
                k = law.key(case)
                if k in excluded:
                    acc.excluded[k] += 1
                    continue
                try:
                    guarded_check(law, case)
                    acc.note(law, case, True)
                except Skip as s:
                    acc.skipped[s.why] += 1
                except Violation as v:
                    acc.note(law, case, True)
                    if v.case is not None:
                        case = v.case
                        k = law.key(case)
                    failures.append({'key': k, 'case': case, 'msg': v.msg,
                                     'observed': values.enc(v.observed), 'expected': values.enc(v.expected)})
                    excluded.add(k)
                    if len(failures) >= 8:
                        break
    except HarnessTimeout:
        herr = 'case guard (%ds) hit in law %s: inconclusive' % (law.guard or CASE_GUARD_S, law.name)
    except BaseException:
        herr = 'law %s shard %d: %s' % (law.name, shard, traceback.format_exc())
    known = set(known_excluded)
    return {
        'law': law.name, 'shard': shard, 'evals': acc.evals, 'digests': acc.digests,
        'nontrivial_n': acc.nontrivial_n,
        'excluded_known': sum(v for k, v in acc.excluded.items() if k in known),
        'excluded_after_failure': sum(v for k, v in acc.excluded.items() if k not in known),
        'skipped': dict(acc.skipped), 'classes': dict(acc.classes), 'keys': dict(acc.keys),
        'samples': acc.samples, 'failures': failures, 'harness_error': herr, 'wall': time.time() - t0,
    }


def load_findings():
    p = os.path.join(ROOT, 'known_findings.json')
    if not os.path.exists(p):
        return {'open': [], 'fixed': []}
    with open(p) as f:
        return json.load(f)


def replay_file(pid, path):
    snapshot.load()
    mod = load_module(pid)
    with open(path) as f:
        rec = json.load(f)
    law = [l for l in mod.LAWS if l.name == rec['law']][0]
    if law.setup:
        law.setup()
    try:
        law.check(rec['case'])
    except Skip as s:
        print('replay: case now lies in an excluded region (%s)' % s.why)
        return 0
    except Violation as v:
        print('replay fails: %s\n  observed=%r\n  expected=%r' % (v.msg, values.enc(v.observed), values.enc(v.expected)))
        print('VIOLATION property=%s replay=%s' % (pid, path))
        return 1
    print('replay passes: property=%s law=%s' % (pid, rec['law']))
    return 0


def _pick_samples(samples, n=6):
    if len(samples) <= n:
        return samples
    step = (len(samples) - 1) / float(n - 1)
    return [samples[int(round(i * step))] for i in range(n)]


def run_property(pid, tier, seedv, only=None, jobs=None):
    t0 = time.time()
    snapshot.load()
    mod = load_module(pid)
    laws = list(mod.LAWS)
    findings = load_findings()
    open_f = [f for f in findings.get('open', []) if f['property'] == pid]
    known = {}          # law name -> set(keys)
    known_lines = []
    signal.signal(signal.SIGALRM, _alarm)
    for f in open_f:
        law = [l for l in laws if l.name == f['law']]
        if not law:
            print('harness error: finding names unknown law %s' % f['law'], file=sys.stderr)
            return 2
        law = law[0]
        with open(os.path.join(ROOT, f['witness'])) as fh:
            rec = json.load(fh)
        if law.setup:
            law.setup()
        try:
            guarded_check(law, rec['case'])
            print('note: listed finding no longer reproduces (%s / %s): not excluded' % (f['law'], f['key']), file=sys.stderr)
        except Violation:
            known_lines.append('KNOWN-FINDING: property=%s %s' % (pid, f['what']))
            known.setdefault(law.name, set()).add(f['key'])
        except Skip:
            pass
    tasks = []
    for idx, law in enumerate(laws):
        if only and law.name not in only:
            continue
        ns = law.nshards(tier)
        for sh in range(ns):
            tasks.append((pid, idx, tier, seedv, sh, ns, sorted(known.get(law.name, ()))))
    # shard 0 of every law first, then shard 1 ...: every law starts early (a failing law is seen at once, a slow one cannot starve the others)
    tasks.sort(key=lambda t: (t[4], t[1]))
    nproc = jobs or int(os.environ.get('HX_JOBS', '16'))
    nproc = max(1, min(nproc, len(tasks)))
    results = []
    if nproc == 1:
        for t in tasks:
            results.append(run_task(t))
    else:
        ctx = multiprocessing.get_context('fork')
        pool = ctx.Pool(nproc)
        try:
            for r in pool.imap_unordered(run_task, tasks, chunksize=1):
                results.append(r)
                if r['failures'] and os.environ.get('HX_FAILFAST'):
                    break       # sensitivity runs only need to know that the check fails
        finally:
            pool.terminate()
            pool.join()
    # merge
    per_law = {}
    for law in laws:
        if only and law.name not in only:
            continue
        per_law[law.name] = {'cases': 0, 'nontrivial': 0, 'wall_s': 0.0, 'excluded_known': 0,
                             'excluded_after_failure': 0, 'skipped': Counter(), 'classes': Counter(),
                             'keys': Counter(), 'digests': set(), 'samples': [], 'failures': {},
                             'rule': law.rule, 'exhaustive': (law.exhaustive is True or law.exhaustive == tier)}
    herrs = []
    for r in sorted(results, key=lambda r: (r['law'], r['shard'])):
        pl = per_law[r['law']]
        pl['cases'] += r['evals']
        pl['wall_s'] = max(pl['wall_s'], r['wall'])
        pl['excluded_known'] += r['excluded_known']
        pl['excluded_after_failure'] += r['excluded_after_failure']
        pl['skipped'].update(r['skipped'])
        pl['classes'].update(r['classes'])
        pl['keys'].update(r['keys'])
        pl['digests'] |= r['digests']
        pl['nontrivial'] += r['nontrivial_n']
        pl['samples'].extend(r['samples'])
        for f in r['failures']:
            cur = pl['failures'].get(f['key'])
            if cur is None or len(json.dumps(f['case'], default=repr)) < len(json.dumps(cur['case'], default=repr)):
                pl['failures'][f['key']] = f
        if r['harness_error']:
            herrs.append(r['harness_error'])
    for law in laws:
        if law.name not in per_law:
            continue
        pl = per_law[law.name]
        pl['nontrivial'] += len(pl['digests'])
        for req in law.required:
            if pl['classes'].get(req, 0) == 0 and not pl['failures'] and not (os.environ.get('HX_FAILFAST') and any(x['failures'] for x in per_law.values())):
                herrs.append('vacuity guard: law %s never produced class %r' % (law.name, req))
    # failures -> replay files + lines
    viol_lines = []
    nviol = 0
    for name, pl in per_law.items():
        for k, f in sorted(pl['failures'].items()):
            nviol += 1
            d = os.path.join(os.environ.get('HX_REPLAY_DIR') or os.path.join(ROOT, 'replays'), pid)
            os.makedirs(d, exist_ok=True)
            rec = {'property': pid, 'law': name, 'key': k, 'case': f['case'], 'msg': f['msg'],
                   'observed': f['observed'], 'expected': f['expected'], 'seed': seedv, 'tier': tier}
            dig = values.case_digest([name, f['case']]).hex()
            path = os.path.join(d, '%s-%s.json' % (name, dig[:10]))
            with open(path, 'w') as fh:
                json.dump(rec, fh, indent=1, sort_keys=True, default=repr)
            print('violation: law=%s key=%s: %s\n  case=%s\n  observed=%s expected=%s' % (
                name, k, f['msg'], json.dumps(f['case'], default=repr)[:600],
                json.dumps(f['observed'], default=repr)[:300], json.dumps(f['expected'], default=repr)[:300]))
            viol_lines.append('VIOLATION property=%s replay=%s' % (pid, path))
    # evidence
    total_evals = sum(pl['cases'] for pl in per_law.values())
    total_nt = sum(pl['nontrivial'] for pl in per_law.values())
    samples = []
    for name, pl in per_law.items():
        for s in _pick_samples(pl['samples'], 4):
            samples.append({'law': name, 'case': s})
    rule = getattr(mod, 'RULE', '') + ' | ' + ' || '.join('%s: %s' % (l.name, l.rule) for l in laws if l.name in per_law)
    exhaustive_laws = [n for n, pl in per_law.items() if pl['exhaustive']]
    cov = {
        'evaluations': total_evals,
        'distinct_nontrivial': total_nt,
        'rule': rule,
        'samples': samples,
        'laws': dict((n, {'cases': pl['cases'], 'nontrivial': pl['nontrivial'], 'wall_s': round(pl['wall_s'], 2),
                          'excluded_known': pl['excluded_known'],
                          'excluded_after_failure': pl['excluded_after_failure'],
                          'excluded_ambiguous': dict(pl['skipped']),
                          'distribution': dict(pl['classes']),
                          'keys': dict(pl['keys'].most_common(40)),
                          'exhaustive': pl['exhaustive']}) for n, pl in per_law.items()),
        'exhaustive_laws': exhaustive_laws,
        'known_findings_reproduced': known_lines,
        'harness_errors': herrs,
    }
    if exhaustive_laws and len(exhaustive_laws) == len(per_law):
        cov['exhaustive'] = True
    ev = {
        'property_id': pid, 'tier': tier, 'seed': seedv, 'level': 'exploration', 'coverage': cov,
        'assumptions': list(getattr(mod, 'ASSUMPTIONS', [])),
        'wall_s': round(time.time() - t0, 2), 'violations': nviol,
    }
    if not only and not os.environ.get('HX_NOEVIDENCE'):
        os.makedirs(os.path.join(ROOT, 'evidence'), exist_ok=True)
        with open(os.path.join(ROOT, 'evidence', '%s.json' % pid), 'w') as fh:
            json.dump(ev, fh, indent=1, sort_keys=True, default=repr)
    for name, pl in per_law.items():
        print('law %-28s cases=%-8d nontrivial=%-8d skipped=%s wall=%.1fs' % (
            name, pl['cases'], pl['nontrivial'], dict(pl['skipped']), pl['wall_s']))
    for l in known_lines:
        print(l)
    for l in viol_lines:
        print(l)
    if viol_lines:
        return 1
    if herrs:
        for h in herrs:
            print('HARNESS-ERROR: %s' % h, file=sys.stderr)
        return 2
    print('OK property=%s tier=%s seed=%d evaluations=%d distinct_nontrivial=%d wall=%.1fs' % (
        pid, tier, seedv, total_evals, total_nt, time.time() - t0))
    return 0
