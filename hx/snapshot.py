"""Private copy of the tree under test.

Every run copies ${HX_REPO:-/repo}/hotxlfp to a fresh temporary directory
outside /repo and /verif, imports `hotxlfp` from there and removes the copy at
exit.  Reasons: the run is a pure function of the tree at start time; ply may
rewrite its parsetab next to the grammar when the grammar changed, and that
write must not land in /repo.
"""
import atexit
import os
import shutil
import sys
import tempfile

_STATE = {}


def repo_root():
    return os.environ.get('HX_REPO', '/repo')


def load():
    """Copy the package, import it from the copy, return the module."""
    if 'mod' in _STATE:
        return _STATE['mod']
    src = os.path.join(repo_root(), 'hotxlfp')
    if not os.path.isdir(src):
        raise RuntimeError('no hotxlfp package under %s' % repo_root())
    base = os.environ.get('HX_TMP') or tempfile.gettempdir()
    tmp = tempfile.mkdtemp(prefix='hx-snap-', dir=base)
    pid = os.getpid()

    def _cleanup():
        if os.getpid() == pid:
            shutil.rmtree(tmp, ignore_errors=True)
    atexit.register(_cleanup)
    shutil.copytree(src, os.path.join(tmp, 'hotxlfp'),
                    ignore=shutil.ignore_patterns('__pycache__', '*.pyc'))
    for extra in ('SUPPORTED_FORMULAS.md', 'README.md'):
        p = os.path.join(repo_root(), extra)
        if os.path.exists(p):
            shutil.copy(p, os.path.join(tmp, extra))
    sys.path.insert(0, tmp)
    for name in [m for m in sys.modules if m == 'hotxlfp' or m.startswith('hotxlfp.')]:
        del sys.modules[name]
    sys.dont_write_bytecode = True
    import hotxlfp  # noqa
    here = os.path.realpath(hotxlfp.__file__)
    if not here.startswith(os.path.realpath(tmp) + os.sep):
        raise RuntimeError('hotxlfp imported from %s, not from the snapshot %s' % (here, tmp))
    _STATE['mod'] = hotxlfp
    _STATE['dir'] = tmp
    _settle_tables(hotxlfp)
    return hotxlfp


def _settle_tables(hotxlfp):
    """Build one parser in the parent process before any worker is forked.

    ply (re)generates parser_FormulaParser_parsetab.py next to the grammar when the file is missing (it is a
    generated, git-ignored file: a fresh checkout has none) or when its signature does not match the grammar
    (an edited precedence table).  Sixteen workers doing that at once would race on the file.  After the first
    construction the possibly stale table module is dropped and a second parser imports the file just written,
    so that every later construction - here and in the forked workers - finds a matching table and writes nothing.
    """
    import importlib
    import logging
    try:
        hotxlfp.Parser()
    except Exception:
        return          # a tree whose grammar does not build is reported by the checks themselves
    for name in [m for m in sys.modules if m.endswith('_parsetab') and m.startswith('hotxlfp.')]:
        del sys.modules[name]
    importlib.invalidate_caches()
    try:
        hotxlfp.Parser()
    except Exception:
        pass


def directory():
    load()
    return _STATE['dir']
