"""Tagged JSON <-> Python values, so that every generated case is plain data.

JSON natives stand for themselves (int, finite float, str, bool, None, list).
Everything else is a one-key-tagged dict {"$": tag, "v": payload}:
  dt   ISO date-time            err  XLError singleton by code
  f    non-finite float by name  tup  tuple       bytes  latin-1 text
  obj  an opaque object (compared by identity), exc an exception class name
"""
import datetime
import json
import hashlib
import math

from . import snapshot


def err_mod():
    snapshot.load()
    from hotxlfp.formulas import error
    return error


CODES9 = ['#ERROR!', '#DIV/0!', '#NAME?', '#N/A', '#NULL!', '#NUM!', '#REF!', '#VALUE!', '#GETTING_DATA']
CODES8 = ['#NULL!', '#DIV/0!', '#VALUE!', '#REF!', '#NAME?', '#NUM!', '#N/A', '#GETTING_DATA']


class EqAny(object):
    """equal to everything (like unittest.mock.ANY)"""
    def __eq__(self, other):
        return True

    def __ne__(self, other):
        return False

    __hash__ = object.__hash__


class EqRaises(object):
    """comparison with a foreign object raises"""
    def __eq__(self, other):
        if other is self:
            return True
        raise TypeError('cannot compare')

    __hash__ = object.__hash__


class EqElementwise(list):
    """== returns a list (numpy style); its truth value as a whole is ambiguous"""
    def __eq__(self, other):
        return EqElementwise([x == other for x in self])

    def __bool__(self):
        raise ValueError('truth value of an element-wise comparison is ambiguous')

    __hash__ = None


_WEIRD = {}


class SubInt(int):
    pass


class SubFloat(float):
    pass


class SubStr(str):
    pass


class SubList(list):
    pass


_SUBCLASSES = {'int': SubInt, 'float': SubFloat, 'str': SubStr, 'list': SubList}


class SubDatetime(datetime.datetime):
    """a host date-time whose class derives from datetime.datetime (pandas.Timestamp and freezegun's FakeDatetime are such classes)"""
    @classmethod
    def of(cls, d):
        return cls(d.year, d.month, d.day, d.hour, d.minute, d.second, d.microsecond)


class BadRepr(object):
    def __repr__(self):
        raise RuntimeError('repr() of this host object fails')

    __str__ = __repr__


class Opaque(object):
    def __init__(self, n):
        self.n = n

    def __repr__(self):
        return 'Opaque(%r)' % (self.n,)

    def __eq__(self, other):
        return isinstance(other, Opaque) and other.n == self.n

    def __hash__(self):
        return hash(('Opaque', self.n))


def dec(spec):
    """spec -> Python value"""
    if isinstance(spec, list):
        return [dec(x) for x in spec]
    if isinstance(spec, dict):
        t, v = spec['$'], spec.get('v')
        if t == 'dt':
            return datetime.datetime.fromisoformat(v)
        if t == 'err':
            return err_mod().from_message(v)
        if t == 'f':
            return float(v)
        if t == 'tup':
            return tuple(dec(x) for x in v)
        if t == 'bytes':
            return v.encode('latin-1')
        if t == 'obj':
            return Opaque(v)
        if t == 'weird':
            return _WEIRD.setdefault(v, {'eqany': EqAny, 'eqraises': EqRaises, 'elementwise': lambda: EqElementwise([1, 2])}[v]())
        if t == 'sub':
            # a value whose class merely derives from int / float / str / list (an IntEnum member, a numpy-like scalar, a tagged string)
            base, payload = v
            return _SUBCLASSES[base](dec(payload))
        if t == 'badrepr':
            return _WEIRD.setdefault('badrepr', BadRepr())
        if t == 'pow':
            return v[0] ** v[1]          # an integer too long to write out (7**6000 has 5071 digits, beyond the interpreter's int/str limit)
        if t == 'dict':
            return dict((k, dec(x)) for k, x in v)
        if t == 'set':
            return frozenset(dec(x) for x in v)
        raise ValueError('bad tag %r' % (t,))
    return spec


def enc(val):
    """Python value -> spec (best effort, used for reporting observed values)"""
    if isinstance(val, BadRepr):
        return {'$': 'badrepr', 'v': None}
    if isinstance(val, int) and not isinstance(val, bool) and abs(val) >= 10 ** 4000:
        return {'$': 'repr', 'v': 'an integer of %d bits' % val.bit_length()}
    if isinstance(val, bool) or val is None or isinstance(val, (int, str)):
        return val
    if isinstance(val, float):
        if math.isfinite(val):
            return val
        return {'$': 'f', 'v': repr(val)}
    if isinstance(val, datetime.datetime):
        return {'$': 'dt', 'v': val.isoformat()}
    if isinstance(val, list):
        return [enc(x) for x in val]
    if isinstance(val, tuple):
        return {'$': 'tup', 'v': [enc(x) for x in val]}
    if isinstance(val, BaseException) and type(val).__name__ == 'XLError':
        return {'$': 'err', 'v': str(val)}
    if isinstance(val, Opaque):
        return {'$': 'obj', 'v': val.n}
    if isinstance(val, bytes):
        return {'$': 'bytes', 'v': val.decode('latin-1')}
    return {'$': 'repr', 'v': repr(val)[:200]}


def dt(y, m, d, hh=0, mm=0, ss=0, us=0):
    return {'$': 'dt', 'v': datetime.datetime(y, m, d, hh, mm, ss, us).isoformat()}


def err(code):
    return {'$': 'err', 'v': code}


def is_err(v):
    return isinstance(v, BaseException) and type(v).__name__ == 'XLError'


def case_digest(case):
    s = json.dumps(case, sort_keys=True, ensure_ascii=True, default=repr)
    return hashlib.blake2b(s.encode('ascii', 'backslashreplace'), digest_size=8).digest()


def same_value(a, b, tol=0.0, typed=True):
    """Outcome-value equality with type discrimination.

    typed=True: True is not 1, but 2 == 2.0 only when tol > 0 or both compare
    equal and are both non-bool numbers of the same kind (int vs float
    distinguished).  typed=False: numeric value only.
    """
    if is_err(a) or is_err(b):
        return is_err(a) and is_err(b) and str(a) == str(b)
    if isinstance(a, list) or isinstance(b, list):
        if not (isinstance(a, list) and isinstance(b, list)) or len(a) != len(b):
            return False
        return all(same_value(x, y, tol, typed) for x, y in zip(a, b))
    if isinstance(a, bool) or isinstance(b, bool):
        if typed:
            return isinstance(a, bool) and isinstance(b, bool) and a == b
        if not isinstance(a, (bool, int, float)) or not isinstance(b, (bool, int, float)):
            return False
    if isinstance(a, datetime.datetime) or isinstance(b, datetime.datetime):
        if not (isinstance(a, datetime.datetime) and isinstance(b, datetime.datetime)):
            return False
        return abs((a - b).total_seconds()) <= (tol if tol else 0.0)
    if isinstance(a, (int, float)) and isinstance(b, (int, float)):
        if isinstance(a, float) and math.isnan(a):
            return isinstance(b, float) and math.isnan(b)
        if isinstance(b, float) and math.isnan(b):
            return False
        if typed and tol == 0.0 and (isinstance(a, int) != isinstance(b, int)):
            return False
        if a == b:
            return True
        if tol:
            if math.isinf(a) or math.isinf(b):
                return False
            return abs(a - b) <= tol * max(1.0, abs(a), abs(b))
        return False
    if type(a) != type(b):
        return False
    return a == b


def same_outcome(a, b, tol=0.0, typed=True):
    if a['error'] != b['error']:
        return False
    return same_value(a['result'], b['result'], tol, typed)
