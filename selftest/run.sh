#!/bin/bash
# selftest/run.sh [PID ...]: for every selftest/<PID>/*.diff apply it to a scratch worktree of /repo, check that the
# repository's own tests still pass (recorded, not required), run the quick check with HX_REPO and require exit 1.
cd /verif
PIDS=${@:-$(ls selftest | grep '^C')}
for PID in $PIDS; do
  for P in selftest/$PID/*.diff; do
    [ -f "$P" ] || continue
    D=$(mktemp -d /tmp/hxm-XXXXXX)
    git -C /repo worktree add -q --detach "$D/repo" HEAD >/dev/null 2>&1
    if ! git -C "$D/repo" apply "$(realpath $P)" 2>/dev/null; then echo "$PID $(basename $P) PATCH-FAILED"; git -C /repo worktree remove --force "$D/repo"; rm -rf "$D"; continue; fi
    T=$(cd "$D/repo" && /venv/bin/python -m pytest -q -p no:cacheprovider -x 2>&1 | tail -1 | grep -c ' passed' )
    S=$(date +%s)
    OUT=$(HX_REPO="$D/repo" HX_NOEVIDENCE=1 HX_FAILFAST=1 HX_REPLAY_DIR="$D/replays" /venv/bin/python -m hx $PID --tier quick 2>&1); RC=$?
    E=$(( $(date +%s) - S ))
    if [ $RC = 1 ]; then V=KILLED; else V="SURVIVED(rc=$RC)"; fi
    echo "$PID $(basename $P .diff) $V tests_pass=$T ${E}s $(echo "$OUT" | grep -m1 '^violation' | cut -c1-150)"
    git -C /repo worktree remove --force "$D/repo"; rm -rf "$D"
  done
done
