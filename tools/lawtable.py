"""Regenerates the table of DESIGN.md section 8.6 from the check modules:  /venv/bin/python tools/lawtable.py"""
import importlib
import os
import sys

ROOT = os.path.dirname(os.path.dirname(os.path.abspath(__file__)))
sys.path.insert(0, ROOT)
from hx.law import QUICK_SCALE   # noqa

HEAD = '| property | law | generator | quick | thorough | exh | required classes (vacuity guard) |\n|---|---|---|---|---|---|---|\n'


def main():
    rows = []
    for i in range(1, 21):
        pid = 'C%02d' % i
        mod = importlib.import_module('hx.checks.c%02d' % i)
        for law in mod.LAWS:
            enum = law.strategy is None
            exh = {True: 'both', 'thorough': 'thorough', False: ''}[law.exhaustive]
            req = ', '.join(law.required)
            rows.append('| %s | %s | %s | %s | %s | %s | %s |' % (pid, law.name, 'enumerator' if enum else 'Hypothesis', 'enum' if enum else law.quick * QUICK_SCALE,
                                                                 'enum' if enum else law.thorough, exh, req if len(req) <= 160 else req[:157] + '...'))
    path = os.path.join(ROOT, 'DESIGN.md')
    s = open(path).read()
    a = s.index(HEAD)
    b = a + len(HEAD)
    while s[b:b + 1] == '|':
        b = s.index('\n', b) + 1
    s = s[:a] + HEAD + '\n'.join(rows) + '\n' + s[b:]
    open(path, 'w').write(s)
    print('%d laws' % len(rows))


if __name__ == '__main__':
    main()
