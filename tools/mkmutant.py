#!/venv/bin/python
"""tools/mkmutant.py <PID> <name> <file-relative-to-repo> <old> <new>  -> selftest/<PID>/<name>.diff
Creates a patch (against /repo HEAD) replacing exactly one occurrence of <old> by <new> (use --nth N for the N-th)."""
import subprocess, sys, os, tempfile, shutil
args = sys.argv[1:]
nth = 1
if args[0] == '--nth':
    nth = int(args[1]); args = args[2:]
pid, name, rel, old, new = args
old = old.encode().decode('unicode_escape'); new = new.encode().decode('unicode_escape')
src = open(os.path.join('/repo', rel)).read()
idx = -1
for _ in range(nth):
    idx = src.find(old, idx + 1)
    if idx < 0:
        sys.exit('pattern not found: %r' % old)
mut = src[:idx] + new + src[idx + len(old):]
d = tempfile.mkdtemp(prefix='hxmk-')
try:
    a = os.path.join(d, 'a', rel); b = os.path.join(d, 'b', rel)
    os.makedirs(os.path.dirname(a)); os.makedirs(os.path.dirname(b))
    open(a, 'w').write(src); open(b, 'w').write(mut)
    p = subprocess.run(['diff', '-u', os.path.join('a', rel), os.path.join('b', rel)], cwd=d, capture_output=True, text=True)
    out = os.path.join('/verif/selftest', pid); os.makedirs(out, exist_ok=True)
    open(os.path.join(out, name + '.diff'), 'w').write(p.stdout)
    print('wrote', os.path.join(out, name + '.diff'))
finally:
    shutil.rmtree(d)
