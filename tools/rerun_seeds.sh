#!/bin/bash
# tools/rerun_seeds.sh [name-glob]: re-applies every seeded change under /verif/seeded to a scratch worktree of /repo HEAD and runs the quick check of
# its property (plus the checks named in meta.json "also") against it; one line per seed: DETECTED / MISSED / PATCH-FAILED.  Results: seeded/RESULTS.txt
cd /verif
PAT=${1:-C*}
OUT=seeded/RESULTS.txt
[ "$PAT" = "C*" ] && : > $OUT
for d in seeded/$PAT/; do
  n=$(basename $d); P=${n%%-*}
  D=$(mktemp -d /tmp/hxr-XXXXXX)
  git -C /repo worktree add -q --detach "$D/repo" HEAD >/dev/null 2>&1
  if ! git -C "$D/repo" apply "/verif/$d/patch.diff" 2>/dev/null; then echo "$n PATCH-FAILED" | tee -a $OUT; git -C /repo worktree remove --force "$D/repo"; rm -rf "$D"; continue; fi
  ALSO=$(/venv/bin/python -c "import json;print(' '.join(json.load(open('/verif/$d/meta.json')).get('also',[])))")
  R=""; HIT=0
  for Q in $P $ALSO; do
    S=$(date +%s)
    HX_REPO="$D/repo" HX_NOEVIDENCE=1 HX_FAILFAST=1 HX_REPLAY_DIR="$D/replays" timeout 1800 /venv/bin/python -m hx $Q --tier quick >/dev/null 2>&1; RC=$?
    R="$R $Q:rc=$RC:$(( $(date +%s) - S ))s"; [ $RC = 1 ] && HIT=1 && break
  done
  [ $HIT = 1 ] && echo "$n DETECTED$R" | tee -a $OUT || echo "$n MISSED$R" | tee -a $OUT
  git -C /repo worktree remove --force "$D/repo"; rm -rf "$D"
done
git -C /repo worktree prune
