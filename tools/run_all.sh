#!/bin/bash
# tools/run_all.sh [tier] [seed]: every check once; prints one status line per property
cd /verif
TIER=${1:-quick}; SEED=${2:-1}
for i in $(seq -w 1 20); do
  S=$(date +%s)
  OUT=$(VERIF_SEED=$SEED /venv/bin/python -m hx C$i --tier $TIER 2>&1); RC=$?
  echo "C$i rc=$RC $(( $(date +%s) - S ))s $(echo "$OUT" | grep -E '^(OK|VIOLATION|KNOWN-FINDING|HARNESS)' | head -3 | cut -c1-160 | tr '\n' '|')"
done
