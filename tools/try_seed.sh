#!/bin/bash
# tools/try_seed.sh <PID> <seed-dir> <name> [extra PIDs...]
# Confirms a seeded change independently (tests pass with it, demo fails with it and passes without), runs the quick check(s)
# against it and files it under /verif/seeded/<name>/ with a meta.json.
PID=$1; SRC=$2; NAME=$3; shift 3; OTHERS="$@"
D=$(mktemp -d /tmp/hxs-XXXXXX)
git -C /repo worktree add -q --detach "$D/repo" HEAD >/dev/null 2>&1
cd "$D/repo"
cp -r "$SRC" "$D/seed"
DEMO_CLEAN=$( (cd "$D/repo" && mkdir -p _seed/x && cp "$D/seed/demo.py" _seed/x/demo.py && timeout 300 /venv/bin/python _seed/x/demo.py >/dev/null 2>&1; echo $?) )
if ! git apply "$D/seed/patch.diff" 2>/dev/null; then echo "$NAME PATCH-DOES-NOT-APPLY"; cd /; git -C /repo worktree remove --force "$D/repo"; rm -rf "$D"; exit 3; fi
TESTS=$(timeout 600 /venv/bin/python -m pytest -q -p no:cacheprovider 2>&1 | tail -1)
DEMO_PATCHED=$( (timeout 300 /venv/bin/python _seed/x/demo.py >/dev/null 2>&1; echo $?) )
rm -rf _seed
RESULTS=""
for P in $PID $OTHERS; do
  S=$(date +%s)
  OUT=$(cd /verif && HX_REPO="$D/repo" HX_NOEVIDENCE=1 HX_FAILFAST=1 HX_REPLAY_DIR="$D/replays" timeout 1800 /venv/bin/python -m hx $P --tier quick 2>&1); RC=$?
  E=$(( $(date +%s) - S ))
  V=$(echo "$OUT" | grep -m1 '^violation' | cut -c1-220)
  RESULTS="$RESULTS$P:rc=$RC:${E}s;"
  echo "  check $P rc=$RC ${E}s $V"
done
echo "$NAME tests='$TESTS' demo_clean=$DEMO_CLEAN demo_patched=$DEMO_PATCHED $RESULTS"
mkdir -p /verif/seeded/$NAME
cp "$D/seed/patch.diff" "$D/seed/demo.py" /verif/seeded/$NAME/
[ -f "$D/seed/notes.md" ] && cp "$D/seed/notes.md" /verif/seeded/$NAME/notes.md
cat > /verif/seeded/$NAME/meta.json <<EOM
{"property": "$PID", "name": "$NAME", "source": "independent sub-agent given only the property text and a scratch worktree",
 "tests_with_patch": "$TESTS", "demo_exit_clean_tree": $DEMO_CLEAN, "demo_exit_patched_tree": $DEMO_PATCHED,
 "checks_run": "$RESULTS", "repo_commit": "$(git -C /repo rev-parse --short HEAD)"}
EOM
cd /; git -C /repo worktree remove --force "$D/repo"; rm -rf "$D"
