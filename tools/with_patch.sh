#!/bin/bash
# usage: tools/with_patch.sh (<patch.diff> | --revert <commit>) <PID> [extra hx args]
# Applies the change to a scratch copy of /repo (outside /repo and /verif), runs the quick check
# against it with HX_REPO, prints the exit code, removes the copy.
set -u
if [ "$1" = "--revert" ]; then MODE=revert; WHAT=$2; shift 2; else MODE=patch; WHAT=$(realpath "$1"); shift; fi
PID=$1; shift
D=$(mktemp -d /tmp/hxm-XXXXXX)
git -C /repo worktree add -q --detach "$D/repo" HEAD >/dev/null 2>&1 || { echo "worktree failed"; exit 3; }
# carry over uncommitted working-tree edits of /repo too
git -C /repo diff HEAD | git -C "$D/repo" apply --allow-empty 2>/dev/null
if [ $MODE = revert ]; then git -C "$D/repo" show "$WHAT" | git -C "$D/repo" apply -R || { echo "revert failed"; }
else git -C "$D/repo" apply "$WHAT" || echo "patch failed"; fi
cd /verif
HX_REPO="$D/repo" HX_NOEVIDENCE=1 HX_FAILFAST=1 HX_REPLAY_DIR="$D/replays" /venv/bin/python -m hx "$PID" "$@"
RC=$?
echo "exit=$RC"
git -C /repo worktree remove --force "$D/repo"; rm -rf "$D"
exit $RC
